#!/usr/bin/env python3
"""Cross-check the simulator's comparison stub (sim/src/world.rs: altered) against the REAL
python/pypipegraph2/history_comparisons.py, loaded with its package dependencies stubbed out.

stdin: JSON lines produced by `ppg2sim cmpcases <n> <seed>`:
   {"up_parts": [...], "down_inputs": [...]|null, "last": "p=hash@noise|...", "now": "...", "expect": true|false|"raise"}
exit 0 = the real code agrees with the stub on every case; 1 = disagreement; 3 = cannot load the real code.
"""
import importlib.util, json, os, sys, types

repo = os.environ.get("VERIF_REPO", "/repo")
path = os.path.join(repo, "python", "pypipegraph2", "history_comparisons.py")

def load():
    pkg = types.ModuleType("pypipegraph2")
    pkg.__path__ = []
    util = types.ModuleType("pypipegraph2.util")
    for n in ("log_info", "log_error", "log_debug", "log_warning", "log_trace", "log_job_trace"):
        setattr(util, n, lambda *a, **k: None)
    tb = types.ModuleType("pypipegraph2.ppg_traceback")
    class Trace:
        def __init__(self, *a, **k): pass
        def __str__(self): return "trace"
    tb.Trace = Trace
    sys.modules["pypipegraph2"] = pkg
    sys.modules["pypipegraph2.util"] = util
    sys.modules["pypipegraph2.ppg_traceback"] = tb
    pkg.util = util
    pkg.ppg_traceback = tb
    spec = importlib.util.spec_from_file_location("pypipegraph2.history_comparisons", path)
    mod = importlib.util.module_from_spec(spec)
    sys.modules["pypipegraph2.history_comparisons"] = mod
    spec.loader.exec_module(mod)
    return mod

def to_json(rec):
    d = {}
    if rec:
        for item in rec.split("|"):
            p, rest = item.split("=", 1)
            h, n = rest.split("@", 1)
            d[p] = {"hash": h, "mtime": int(n)}
    return json.dumps(d)

class Job:
    def __init__(self, outputs): self.outputs = outputs
    def compare_hashes(self, a, b): return a["hash"] == b["hash"]

class Runner:
    def __init__(self, up_parts, down_inputs):
        self.jobs = {"UP": Job(up_parts)}
        self.job_inputs = {"DOWN": down_inputs or []}

def objective(c):
    """What any hash comparison of the consumed outputs must say, independent of the model: 'altered' if a
    consumed output's hash differs (or the old record lacks it), 'unaltered' if every consumed output is in
    both records with equal hashes; None for the '!!!' self comparison and when nothing is consumed."""
    if c["down_inputs"] is None:
        return None
    def parse(rec):
        d = {}
        for item in rec.split("|"):
            if item:
                p, rest = item.split("=", 1)
                d[p] = rest.split("@", 1)[0]
        return d
    last, now = parse(c["last"]), parse(c["now"])
    consumed = [ip for ip in c["down_inputs"] if ip in c["up_parts"]]
    if not consumed or any(ip not in now for ip in consumed):
        return None
    if any(ip not in last or last[ip] != now[ip] for ip in consumed):
        return "altered"
    return "unaltered"

def main():
    try:
        mod = load()
    except Exception as e:  # noqa
        print("cannot load the real history_comparisons.py:", repr(e))
        return 3
    n = bad = bad_raise_only = 0
    first_raise = first_missed = first_spurious = None
    missed = spurious = 0
    vout = report = None
    if "--violation-out" in sys.argv:
        vout = sys.argv[sys.argv.index("--violation-out") + 1]
    if "--report" in sys.argv:
        report = sys.argv[sys.argv.index("--report") + 1]
    for line in sys.stdin:
        line = line.strip()
        if not line:
            continue
        c = json.loads(line)
        runner = Runner(c["up_parts"], c["down_inputs"])
        down = "!!!" if c["down_inputs"] is None else "DOWN"
        last, now = c["last"], c["now"]
        # StrategyForPython short-cuts textual equality before calling python at all
        if last == now:
            got = False
        else:
            try:
                got = bool(mod.history_is_different(runner, "UP", down, to_json(last), to_json(now)))
            except KeyboardInterrupt:
                raise
            except Exception:
                got = "raise"
        n += 1
        obj = objective(c)
        if got is False and obj == "altered":
            # the production comparison misses a changed hash of a consumed output: stale results (C01)
            missed += 1
            if first_missed is None:
                first_missed = c
        if got is True and obj == "unaltered":
            # ... or reports a change although every consumed output has the hash it had: needless re-execution (C04)
            spurious += 1
            if first_spurious is None:
                first_spurious = c
        if got != c["expect"]:
            bad += 1
            # the real code RAISES on an edge comparison for which the model has an answer: in production
            # StrategyForPython turns that into a panic of the evaluator (the defect class of fix 09348e0)
            if got == "raise" and c["down_inputs"] is not None:
                bad_raise_only += 1
                # the evaluator only hands over an old record that shares an output with the upstream's
                # current name: report a case of that kind
                last_parts = {item.split("=", 1)[0] for item in c["last"].split("|") if item}
                if first_raise is None and last_parts & set(c["up_parts"]):
                    first_raise = c
            if bad <= 5:
                print("DISAGREEMENT:", json.dumps(c), "real code says", got)
    print(f"comparison model vs real history_comparisons.py: {n} cases, {bad} disagreements ({bad_raise_only} raise, {missed} missed changes, {spurious} spurious changes)")
    if report:
        with open(report, "w") as f:
            json.dump({"cases": n, "disagreements": bad, "raises": bad_raise_only, "missed_changes": missed,
                       "spurious_changes": spurious, "first_raise": first_raise, "first_missed": first_missed, "first_spurious": first_spurious}, f, indent=1)
    if bad and bad == bad_raise_only and first_raise is not None and vout:
        with open(vout, "w") as f:
            json.dump({"property": "C06", "cmp_case": first_raise, "clause": "comparison-callback-raises",
                       "message": "history_comparisons.history_is_different raises on a dependency comparison (the evaluator panics: 'History comparison failed on python side')"}, f, indent=1)
        return 4
    return 1 if bad else 0

sys.exit(main())
