#!/bin/bash
# Soak: every quick check under other seed blocks (VERIF_SEED=$1..$2) against a copy of the repository.
# usage (background): vp run --with-repo -- tools/soak.sh 2 6 [threads]
# Any VIOLATION line on the unchanged tree is either a genuine defect or a false alarm; both need triage.
set -u
cd "$(dirname "$0")/.."
export VERIF_REPO="${VP_RUN_REPO:-/repo}"
export VERIF_THREADS="${3:-8}"
for seed in $(seq "${1:-2}" "${2:-4}"); do
  for p in C01 C02 C03 C04 C05 C06 C07 C08 C09 C10 C11 C12 C13 C14 C15 C16 C17 C18 C19 C20; do
    echo "== seed $seed $p"
    VERIF_SEED=$seed ./check $p quick 2>&1 | grep -E "VIOLATION|KNOWN|quick:|^C19:|harness|^  [a-z-]+ ::"
    if ls replays/*.json >/dev/null 2>&1; then mkdir -p soak-replays; mv replays/*.json soak-replays/ 2>/dev/null; fi
  done
done
