#!/bin/bash
# tools/regress_seeded.sh [<repo copy>] : run every seeded change against the quick check of its own property.
# Works on a COPY of the repository (default: $VP_RUN_REPO, as provided by `vp run --with-repo`), never on /repo.
# Prints one line per change: caught / MISSED, scenarios with a hit, index of the first hit.
set -u
repo="${1:-${VP_RUN_REPO:-}}"
[ -n "$repo" ] && [ -d "$repo/src" ] || { echo "usage: regress_seeded.sh <copy of the repository>" >&2; exit 2; }
[ "$(realpath "$repo")" != "/repo" ] || { echo "refusing to work on /repo itself" >&2; exit 2; }
here="$(cd "$(dirname "$0")/.." && pwd)"
export VERIF_REPO="$repo"
missed=0
tier="${REGRESS_TIER:-quick}"
for d in "$here"/seeded/C*/; do
    name=$(basename "$d"); prop=${name%%-*}
    if [ -n "${REGRESS_ONLY:-}" ] && ! echo " $REGRESS_ONLY " | grep -q " $name "; then continue; fi
    git -C "$repo" checkout -q -- . || exit 2
    if ! git -C "$repo" apply "$d/patch.diff" 2>/dev/null; then echo "$name: patch does not apply to this tree (skipped)"; continue; fi
    out=$("$here/check" "$prop" "$tier" 2>&1); rc=$?
    git -C "$repo" checkout -q -- .
    # REGRESS_KEEP=<dir>: keep the minimised replay files of every change (witness scenarios for corpus/witnesses/)
    if [ -n "${REGRESS_KEEP:-}" ] && ls "$here"/replays/*.json >/dev/null 2>&1; then
        mkdir -p "$REGRESS_KEEP/$name" && cp "$here"/replays/*.json "$REGRESS_KEEP/$name/" 2>/dev/null
    fi
    rm -rf "$here/replays"
    hits=$(echo "$out" | grep -E "^hits:" | head -1)
    c19=$(echo "$out" | grep -cE "^VIOLATION")
    if [ $rc -eq 1 ]; then echo "$name: caught  ${hits:-violations=$c19}"; else echo "$name: MISSED (rc=$rc)"; missed=$((missed+1)); fi
done
rm -rf "$here/replays"
echo "missed=$missed"
[ $missed -eq 0 ]
