#!/bin/bash
# tools/intake.sh <Cxx> <suffix> <scratch worktree> [extra checks...]
# confirm a seeded change in its scratch worktree, copy it to seeded/<Cxx>-<suffix>/, run the property's quick check on it
set -u
id="$1"; suf="$2"; wt="$3"; shift 3
cd /verif || exit 2
out=$(tools/confirm_mutant.sh "$wt" 2>&1); echo "$out"
echo "$out" | grep -q "^CONFIRMED" || { echo "intake: NOT CONFIRMED"; exit 1; }
d=seeded/$id-$suf; mkdir -p $d
cp "$wt/_out/patch.diff" "$wt/_out/demo_test.rs" "$wt/_out/README.md" $d/
tools/try_patch.sh /verif/$d/patch.diff quick "$id" "$@"
