#!/bin/bash
# tools/try_patch.sh <patch.diff> <tier> <Cxx> [<Cxx>...]
# Applies a patch to /repo's working tree, runs the named checks, and ALWAYS restores /repo.
# Exit status: 0 if at least one check reported a VIOLATION, 1 if none did.
set -u
patch="$1"; tier="$2"; shift 2
cd /repo || exit 2
if [ -n "$(git status --porcelain --untracked-files=no)" ]; then echo "/repo not clean" >&2; exit 2; fi
if ! git apply "$patch"; then echo "patch does not apply" >&2; exit 2; fi
trap 'git -C /repo checkout -- . ; /verif/check build >/dev/null 2>&1' EXIT
caught=1
for p in "$@"; do
    out=$(VERIF_DIR_OVERRIDE= /verif/check "$p" "$tier" 2>&1)
    rc=$?
    echo "== $p rc=$rc"
    echo "$out" | grep -E "^VIOLATION|^  [a-z]|harness error|KNOWN-FINDING" | head -6
    if [ $rc -eq 1 ]; then caught=0; fi
done
exit $caught
