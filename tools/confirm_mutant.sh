#!/bin/bash
# tools/confirm_mutant.sh <worktree> : confirm a seeded change in a scratch worktree (outside /repo, /verif):
#   patch applies; existing 74 tests pass with it; demo fails with it; demo passes without it.
set -u
wt="$1"
cd "$wt" || exit 2
git checkout -q -- . || exit 2
export CARGO_NET_OFFLINE=true
res() { grep -E "^test result" | head -1; }
git apply _out/patch.diff || { echo "PATCH DOES NOT APPLY"; exit 1; }
a=$(cargo test --offline --lib 2>&1 | res)
echo "with patch, existing tests: $a"
cat _out/demo_test.rs >> src/tests.rs
b=$(cargo test --offline --lib 2>&1 | res)
echo "with patch, with demo:      $b"
git apply -R _out/patch.diff || { echo "cannot revert"; exit 1; }
c=$(cargo test --offline --lib 2>&1 | res)
echo "without patch, with demo:   $c"
git checkout -q -- .
ok=1
echo "$a" | grep -q "74 passed; 0 failed" || ok=0
echo "$b" | grep -q "FAILED" || ok=0
echo "$c" | grep -q " 0 failed" || ok=0
echo "$c" | grep -q "ok\." || ok=0
[ $ok = 1 ] && echo "CONFIRMED" || echo "NOT CONFIRMED"
