#!/bin/bash
# tools/confirm_pymutant.sh <worktree> : confirm a seeded change of the python-facing layer in its scratch worktree:
#   patch applies; 74 Rust tests pass with it; _out/demo.py exits 1 with it and 0 without it (extension module
#   rebuilt and re-copied each time).
set -u
wt="$1"; name=$(basename "$wt"); ext="/tmp/wt/$name-ext"; scratch="/tmp/wt/$name-scratch"
cd "$wt" || exit 2
git checkout -q -- . || exit 2
export CARGO_NET_OFFLINE=true
build() { cargo build --offline --lib >/dev/null 2>&1 || return 1; mkdir -p "$ext" && cp target/debug/libpypipegraph2.so "$ext/pypipegraph2.abi3.so"; }
run_demo() { rm -rf "$scratch"; mkdir -p "$scratch"; ( cd "$scratch" && HISTORY_COMPARISONS_PY="$wt/python/pypipegraph2/history_comparisons.py" PYTHONPATH="$ext" timeout 300 python3 "$wt/_out/demo.py" >"$scratch/../$name-demo.out" 2>&1 ); echo $?; }
git apply _out/patch.diff || { echo "PATCH DOES NOT APPLY"; exit 1; }
a=$(cargo test --offline --lib 2>&1 | grep -E "^test result" | head -1)
echo "with patch, existing tests: $a"
build || { echo "build failed"; exit 1; }
b=$(run_demo); echo "with patch, demo exit:    $b"
git checkout -q -- .
build || { echo "build failed"; exit 1; }
c=$(run_demo); echo "without patch, demo exit: $c"
ok=1
echo "$a" | grep -q "74 passed; 0 failed" || ok=0
[ "$b" = "1" ] || ok=0
[ "$c" = "0" ] || ok=0
[ $ok = 1 ] && echo "CONFIRMED" || echo "NOT CONFIRMED"
