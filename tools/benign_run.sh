#!/bin/bash
# tools/benign_run.sh <name>... : apply benign/<name>/patch.diff (a change that keeps every property) to a COPY of
# the repository and run every quick check on it; any VIOLATION is a false alarm (or the change is not benign after
# all) and needs triage. usage: vp run --with-repo -- tools/benign_run.sh B1 B2 ...   (BENIGN_COUNT=n scenarios per check)
set -u
repo="${VP_RUN_REPO:-}"
[ -n "$repo" ] && [ -d "$repo/src" ] || { echo "needs a copy of the repository in VP_RUN_REPO" >&2; exit 2; }
[ "$(realpath "$repo")" != "/repo" ] || { echo "refusing to work on /repo itself" >&2; exit 2; }
here="$(cd "$(dirname "$0")/.." && pwd)"
export VERIF_REPO="$repo"
[ -n "${BENIGN_COUNT:-}" ] && export VERIF_COUNT="$BENIGN_COUNT"
alarms=0
head=$(git -C "$repo" rev-parse HEAD)
for name in "$@"; do
    git -C "$repo" checkout -q -- . || exit 2
    git -C "$repo" checkout -q --detach "$head" || exit 2
    if ! git -C "$repo" apply "$here/benign/$name/patch.diff" 2>/dev/null; then
        # written against an older commit: test it on that commit (benign/<name>/base)
        base=$(cat "$here/benign/$name/base" 2>/dev/null)
        if [ -n "$base" ] && git -C "$repo" checkout -q --detach "$base" && git -C "$repo" apply "$here/benign/$name/patch.diff"; then
            echo "$name: applied on its base commit $base"
        else
            echo "$name: patch does not apply"; continue
        fi
    fi
    ( cd "$repo" && cargo test --offline --lib 2>&1 | grep -E "^test result" | head -1 | sed "s/^/$name: baseline tests: /" )
    for p in C01 C02 C03 C04 C05 C06 C07 C08 C09 C10 C11 C12 C13 C14 C15 C16 C17 C18 C19 C20; do
        out=$("$here/check" "$p" quick 2>&1); rc=$?
        if [ $rc -ne 0 ]; then
            alarms=$((alarms+1)); echo "$name $p: rc=$rc"; echo "$out" | grep -E "^VIOLATION|^  [a-z-]+ ::|DIVERGENCE|harness" | head -8
            mkdir -p "$here/benign-replays/$name"; cp "$here"/replays/$p-* "$here/benign-replays/$name/" 2>/dev/null
        else
            echo "$name $p: ok"
        fi
    done
    git -C "$repo" checkout -q -- .
    git -C "$repo" checkout -q --detach "$head"
done
echo "alarms=$alarms"
