#!/usr/bin/env python3
"""Replay the simulator's recorded evaluations, call by call, through the REAL python-facing layer:
the PyO3 class PPG2Evaluator (src/lib.rs), its StrategyForPython (real files in a scratch directory for
output_already_present, python callbacks for the comparison and the input-name list) and, for the
semantic comparison, the REAL python/pypipegraph2/history_comparisons.py.

stdin : JSON lines from `ppg2sim bridgetrace <Cxx> <from> <scenarios> <seed> <max evaluations>`:
        one evaluation per line = declaration order, input history, files present, hash seed, every engine
        call with its result kind, the files present during the call and the query results after it,
        the history handed out, the outputs the engine reports at the end.
The extension module is the cdylib built from the repository's current working tree by /verif/pybridge
(with the verification cfg, so that hash iteration order is seeded exactly as in the recorded run).

A divergence (different result kind, different query result, different history) means the python-facing
layer does not behave like the evaluator the properties were checked on; it is reported against the
property whose profile produced the trace.

exit 0 = no divergence; 1 = divergence (summary on stdout, one JSON object per divergence);
exit 3 = cannot load the module / the real comparison (harness error).
"""
import importlib, importlib.util, json, os, shutil, sys, tempfile, types

def arg(name, default=None):
    if name in sys.argv:
        return sys.argv[sys.argv.index(name) + 1]
    return default

SO = arg("--so")
REPO = os.environ.get("VERIF_REPO", "/repo")
OUT = arg("--out")          # file to which the first divergence (with its trace position) is written
MAXREP = int(arg("--max-report", "5"))
MODEL_CMP = "--model-comparison" in sys.argv

def load_ext(tmp):
    dst = os.path.join(tmp, "ext")
    os.makedirs(dst)
    shutil.copy(SO, os.path.join(dst, "pypipegraph2.abi3.so"))
    sys.path.insert(0, dst)
    mod = importlib.import_module("pypipegraph2")
    if not hasattr(mod, "verif_set_hash_seed"):
        raise RuntimeError("extension module was built without the verification cfg")
    return mod

def load_cmp():
    """the real history_comparisons.py with its package-internal imports stubbed (logging, traceback)"""
    path = os.path.join(REPO, "python", "pypipegraph2", "history_comparisons.py")
    pkg = types.ModuleType("ppg2_py")
    pkg.__path__ = []
    util = types.ModuleType("ppg2_py.util")
    for n in ("log_info", "log_error", "log_debug", "log_warning", "log_trace", "log_job_trace"):
        setattr(util, n, lambda *a, **k: None)
    tb = types.ModuleType("ppg2_py.ppg_traceback")
    class Trace:
        def __init__(self, *a, **k): pass
        def __str__(self): return "trace"
    tb.Trace = Trace
    sys.modules["ppg2_py"] = pkg
    sys.modules["ppg2_py.util"] = util
    sys.modules["ppg2_py.ppg_traceback"] = tb
    pkg.util = util
    pkg.ppg_traceback = tb
    spec = importlib.util.spec_from_file_location("ppg2_py.history_comparisons", path)
    mod = importlib.util.module_from_spec(spec)
    sys.modules["ppg2_py.history_comparisons"] = mod
    spec.loader.exec_module(mod)
    return mod

def to_json(rec):
    """the simulator's record text 'p=hash@noise|q=...' as the JSON text production records are"""
    d = {}
    if rec:
        for item in rec.split("|"):
            p, rest = item.split("=", 1)
            h, n = rest.split("@", 1)
            d[p] = {"hash": h, "mtime": int(n)}
    return json.dumps(d)

class Names:
    """Output files get production-like names in every second evaluation: a sub-directory, a dot, an
    extension ("j01a" -> "out.d/j01a.tsv"). The map is injective and keeps the order of the simulator's
    names (its alphabet is [0-9a-z], '.' and '/' sort before it, ':' and '!' are never part of a name), so the
    evaluator must behave identically; everything that crosses the API is translated both ways."""
    def __init__(self, on):
        self.on = on
    def part(self, p):
        return ("out.d/" + p + ".tsv") if self.on and p else p
    def job(self, jid):
        return ":::".join(self.part(x) for x in jid.split(":::")) if self.on else jid
    def key(self, k):
        if not self.on:
            return k
        a, sep, b = k.partition("!!!")
        return self.job(a) + sep + (self.job(b) if b else "")
    def lines(self, txt):
        return "\n".join(self.job(l) for l in txt.split("\n")) if self.on and txt else txt
    def record(self, rec):
        if not self.on or not rec:
            return rec
        out = []
        for item in rec.split("|"):
            p, rest = item.split("=", 1)
            out.append(self.part(p) + "=" + rest)
        return "|".join(out)
    def jobs(self, lst):
        return sorted(self.job(j) for j in lst)

class Job:
    def __init__(self, outputs): self.outputs = outputs
    def compare_hashes(self, a, b): return a["hash"] == b["hash"]

class Runner:
    def __init__(self, jobs, nm):
        self.jobs = {nm.job(j["id"]): Job([nm.part(p) for p in j["parts"]]) for j in jobs}
        self.job_inputs = {nm.job(j["id"]): [nm.part(p) for p in j["consumed"]] for j in jobs}

class Disk:
    def __init__(self, root):
        self.root = root
        self.have = set()
    def sync(self, want):
        want = set(want)
        for p in self.have - want:
            os.unlink(os.path.join(self.root, p))
        for p in want - self.have:
            d = os.path.dirname(p)
            if d:
                os.makedirs(os.path.join(self.root, d), exist_ok=True)
            open(os.path.join(self.root, p), "w").close()
        self.have = want

API_PREFIX = None

def calibrate(ext):
    """The glue turns every engine error into ValueError(str(error)); only the text tells the kinds apart.
    Learn what API errors look like by provoking four different ones on a tiny graph and taking their common
    prefix, so that reworded messages are no divergence. Internal and contract errors both count as 'error'."""
    global API_PREFIX
    e = ext.PPG2Evaluator({}, lambda *a: True, lambda j: "")
    e.add_node("calib_a", "Output")
    e.add_node("calib_b", "Output")
    e.add_edge("calib_b", "calib_a")
    e.event_startup()
    msgs = []
    for f in (lambda: e.event_startup(), lambda: e.event_now_running("calib_b"),
              lambda: e.event_job_success("calib_a", "x"), lambda: e.event_job_cleanup_done("calib_a")):
        try:
            f()
        except ValueError as ex:
            msgs.append(str(ex))
    if len(msgs) != 4:
        raise RuntimeError("misuse calls on the calibration graph were not all rejected with ValueError")
    API_PREFIX = os.path.commonprefix(msgs)
    if len(API_PREFIX) < 5:
        raise RuntimeError("API error messages have no common prefix: " + repr(msgs))

def coarse(kind):
    return "error" if kind in ("internal", "contract") else kind

def kind_of(exc):
    n = type(exc).__name__
    if n == "PanicException":
        return "panic"
    if isinstance(exc, ValueError):
        return "api" if str(exc).startswith(API_PREFIX) else "error"
    if isinstance(exc, KeyError):
        return "nosuchjob"
    return "exception:" + n + ":" + str(exc)[:80]

def replay_eval(ext, cmpmod, t, disk):
    """returns None or (call index, what, expected, got)"""
    semantic = t["cmp"] == "Semantic"
    nm = Names(t["hash_seed"] % 2 == 1)
    # under renaming the record text is also wrapped in white space (pretty-printed JSON ends in a newline):
    # the evaluator and the glue must hand records through verbatim
    wrap = (lambda x: " " + x + "\n") if nm.on else (lambda x: x)
    conv = (lambda r: wrap(to_json(nm.record(r)))) if semantic else (lambda r: wrap(nm.record(r)))
    runner = Runner(t["jobs"], nm)
    names = {nm.job(j["id"]): nm.lines(j["names"]) for j in t["jobs"]}
    if semantic and MODEL_CMP:
        # the production comparison differs from the model the search uses (reported separately): the glue is
        # then checked with the model comparison, so that its verdict does not depend on that difference
        def cmp_cb(up, down, last, now):
            l, n = json.loads(last), json.loads(now)
            outs = runner.jobs[up].outputs
            if down == "!!!":
                return any(l[ip]["hash"] != n[ip]["hash"] for ip in outs)
            for ip in runner.job_inputs[down]:
                if ip in outs:
                    if ip not in l or l[ip]["hash"] != n[ip]["hash"]:
                        return True
            return False
    elif semantic:
        def cmp_cb(up, down, last, now):
            return cmpmod.history_is_different(runner, up, down, last, now)
    else:
        def cmp_cb(up, down, last, now):
            return last != now
    def names_cb(job_id):
        return names[job_id]
    def conv_hist(h):
        out = {}
        for k in sorted(h):
            v = h[k]
            out[nm.key(k)] = nm.lines(v) if k.endswith("!!!") else conv(v)
        return out
    hist = conv_hist(t["history"])
    disk.sync([nm.part(p) for p in t["disk0"]])
    ext.verif_set_hash_seed(t["hash_seed"])
    e = ext.PPG2Evaluator(hist, cmp_cb, names_cb)
    for n in t["nodes"]:
        kind = next(j["kind"] for j in t["jobs"] if j["id"] == n)
        e.add_node(nm.job(n), kind)
    for (down, up) in t["edges"]:
        e.add_edge(nm.job(down), nm.job(up))
    for ci, c in enumerate(t["calls"]):
        what = c["c"]
        if what != "fin":
            disk.sync([nm.part(p) for p in c["disk"]])
        jid = nm.job(c["j"]) if c.get("j") else None
        got_val = None
        try:
            if what == "startup": e.event_startup()
            elif what == "start": e.event_now_running(jid)
            elif what == "ok": e.event_job_success(jid, conv(c["a"]))
            elif what == "fail": e.event_job_failure(jid)
            elif what == "ack": e.event_job_cleanup_done(jid)
            elif what == "reconsider": e.reconsider_all_jobs()
            elif what == "abort": e.event_abort()
            elif what == "fin": got_val = e.is_finished()
            elif what == "hist": got_val = e.new_history()
            else: return (ci, "unknown call in trace", what, None)
            got = "ok"
        except KeyboardInterrupt:
            raise
        except BaseException as ex:  # noqa: PanicException derives from BaseException
            got = kind_of(ex)
        if what == "fin":
            if got == "ok":
                got = "true" if got_val else "false"
            if got != c["r"]:
                return (ci, "is_finished", c["r"], got)
            continue
        if got != coarse(c["r"]):
            return (ci, what + "(" + str(c.get("j")) + ") result", c["r"], got)
        if what == "hist" and got == "ok":
            exp = conv_hist(json.loads(c["a"]))
            if exp != got_val:
                diff = sorted(k for k in set(exp) | set(got_val) if exp.get(k) != got_val.get(k))
                return (ci, "new_history differs at keys " + ", ".join(diff[:6]), {k: exp.get(k) for k in diff[:6]}, {k: got_val.get(k) for k in diff[:6]})
        q = c.get("q")
        if q is not None:
            try:
                gq = {
                    "ready": sorted(e.jobs_ready_to_run()),
                    "next": e.next_job_ready_to_run(),
                    "running": sorted(e.jobs_running()),
                    "cleanup": sorted(e.jobs_ready_for_cleanup()),
                    "uf": sorted(e.list_upstream_failed_jobs()),
                }
            except KeyboardInterrupt:
                raise
            except BaseException as ex:  # noqa
                return (ci, "queries after " + what, q, kind_of(ex))
            want = {k: nm.jobs(q[k]) for k in ("ready", "running", "cleanup", "uf")}
            want["next"] = nm.job(q["next"]) if q["next"] is not None else None
            if nm.on:
                # which ready job is named first depends on the hash of the id strings, which the renaming
                # changes: under renaming only "names a ready job, or nothing when nothing is ready" is checked
                ok_next = (gq["next"] in gq["ready"]) if gq["ready"] else gq["next"] is None
                if not ok_next:
                    return (ci, "next_job_ready_to_run after " + what, "a member of " + str(gq["ready"]), gq["next"])
                want["next"] = gq["next"]
            for k in ("ready", "next", "running", "cleanup", "uf"):
                if gq[k] != want[k]:
                    return (ci, "query '" + k + "' after " + what + "(" + str(c.get("j")) + ")", want[k], gq[k])
    # what the engine reports as every job's output at the end
    if t.get("engine_error") is None:
        for jid, exp in sorted(t["outputs"].items()):
            try:
                got = e.get_job_output(nm.job(jid))
            except KeyboardInterrupt:
                raise
            except ValueError:
                got = None      # "job not done"
            except BaseException as ex:  # noqa
                got = kind_of(ex)
            want = None if exp is None else conv(exp)
            if got != want:
                return (len(t["calls"]), "get_job_output(" + jid + ")", want, got)
    return None

def main():
    tmp = tempfile.mkdtemp(prefix="verif-pybridge.")
    rc = 0
    try:
        try:
            ext = load_ext(tmp)
            calibrate(ext)
            cmpmod = load_cmp()
        except Exception as ex:  # noqa
            print("pybridge: cannot load the extension module or history_comparisons.py:", repr(ex))
            return 3
        work = os.path.join(tmp, "cwd")
        os.makedirs(work)
        os.chdir(work)
        disk = Disk(work)
        n = calls = div = 0
        kinds = {}
        first = None
        for line in sys.stdin:
            line = line.strip()
            if not line:
                continue
            rec = json.loads(line)
            t = rec["t"]
            n += 1
            calls += len(t["calls"])
            for c in t["calls"]:
                key = c["c"] + ":" + c["r"]
                kinds[key] = kinds.get(key, 0) + 1
            try:
                d = replay_eval(ext, cmpmod, t, disk)
            except KeyboardInterrupt:
                raise
            except BaseException as ex:  # noqa
                d = (-1, "replay raised outside an engine call", None, repr(ex)[:200])
            if d is not None:
                div += 1
                info = {"scenario": rec["scenario"], "seed": rec["seed"], "eval": rec["eval"], "call": d[0], "what": d[1], "expected": d[2], "got": d[3]}
                if div <= MAXREP:
                    print("DIVERGENCE " + json.dumps(info))
                if first is None:
                    first = info
        summary = {"evaluations": n, "engine_calls": calls, "divergences": div, "call_kinds": kinds,
                   "comparison": "model (production comparison differs from it)" if MODEL_CMP else "real history_comparisons.py",
                   "renamed_evaluations": "every evaluation with an odd hash seed uses production-like file names"}
        print("pybridge: " + json.dumps(summary, sort_keys=True))
        if OUT:
            with open(OUT, "w") as f:
                json.dump({"summary": summary, "first": first}, f)
        rc = 1 if div else 0
    finally:
        os.chdir("/")
        shutil.rmtree(tmp, ignore_errors=True)
    return rc

sys.exit(main())
