//! The simulated driver, workers, jobs and disk around the real engine: runs ONE evaluation.
//! Online monitors (C02, C05, C06, C07, C13, C17, C20) run after every engine call.

use crate::model::*;
use crate::rng::{hash2, hash_str, Rng};
use crate::world::*;
use pypipegraph2::verif_seam as vs;
use pypipegraph2::{JobKind, PPGEvaluator, PPGEvaluatorError};
use std::cell::RefCell;
use std::collections::{BTreeMap, BTreeSet};
use std::panic::{catch_unwind, AssertUnwindSafe};
use std::rc::Rc;

#[derive(Clone, Debug, PartialEq)]
pub struct Violation {
    pub prop: &'static str,
    pub clause: String,
    pub msg: String,
}

#[derive(Clone, Debug, PartialEq)]
pub enum CallRes {
    Ok,
    Api(String),
    Internal(String),
    Contract,
    Panic(String),
}

#[derive(Clone, Debug, PartialEq)]
pub enum FailWhy {
    Injected,
    MissingInput,
    AbortKill,
}

#[derive(Clone, Debug, PartialEq)]
pub enum Ev {
    Offer(usize),
    Start(usize),
    Ok(usize, String),
    Fail(usize, FailWhy),
    ContractErr(usize),
    CleanupOffer(usize),
    Ack(usize),
    Abort { failed_first: Vec<usize>, still_running: Vec<usize> },
    Misuse { call: u8, job: Option<usize>, res: String },
}

#[derive(Clone, Copy, Debug, PartialEq, Eq, PartialOrd, Ord, Hash)]
pub enum Disp {
    ExecOk,
    Failed,
    UpstreamFailed,
    AbortedRunning,
    AbortedNeverStarted,
    Skipped,
}

pub type Probes = BTreeMap<&'static str, u64>;

pub fn probe(p: &mut Probes, k: &'static str) {
    *p.entry(k).or_insert(0) += 1;
}

#[derive(Clone, Debug)]
pub struct EvalOut {
    pub gv: GraphView,
    pub h_in: BTreeMap<String, String>,
    pub h_out: Option<BTreeMap<String, String>>,
    pub disk_before: BTreeMap<String, u64>,
    pub disk_after: BTreeMap<String, u64>,
    pub events: Vec<(u32, Ev)>,
    pub started: BTreeSet<usize>,
    /// record reported by each job that finished successfully
    pub ok: BTreeMap<usize, String>,
    /// values (part -> content) written by successful executions
    pub failed: BTreeSet<usize>,
    pub contract_err: BTreeSet<usize>,
    pub missing_input_fail: BTreeSet<usize>,
    pub running_at_abort: BTreeSet<usize>,
    pub cleanup_offered: BTreeSet<usize>,
    pub cleanup_acked: BTreeSet<usize>,
    pub disp: Vec<Disp>,
    pub final_states: Vec<vs::VState>,
    pub job_outputs: Vec<Option<String>>,
    pub upstream_failed_q: BTreeSet<usize>,
    pub failed_q: BTreeSet<usize>,
    pub violations: Vec<Violation>,
    /// fatal: the evaluation could not be completed (panic / internal error / API error on a legal call)
    pub engine_error: Option<String>,
    pub aborted: bool,
    pub abort_fired_at: Option<u32>,
    pub probes: Probes,
    pub n_actions: u32,
    pub n_calls: u32,
    pub decisions_digest: u64,
    /// coverage: hashed joint states along edges and two-edge paths, observed after every call
    pub features: BTreeSet<u64>,
    /// ground truth of every successful execution: the values it read (part -> value) ...
    pub consumed_vals: BTreeMap<usize, BTreeMap<String, u64>>,
    /// ... and the values it produced
    pub produced_vals: BTreeMap<String, u64>,
    pub max_in_flight: usize,
    pub clock_start: u64,
    pub clock_end: u64,
    /// jobs blocked by a failure (C07's set B), as computed online
    pub blocked: BTreeSet<usize>,
    pub misuse_done: u32,
    /// (job, upstream) -> the upstream's current output as reported by the engine when the job started
    pub consumed_at_start: BTreeMap<(usize, usize), String>,
}

impl EvalOut {
    pub fn clean(&self) -> bool {
        self.engine_error.is_none() && !self.aborted && self.failed.is_empty() && self.contract_err.is_empty()
    }
    pub fn id(&self, j: usize) -> &str {
        &self.gv.jobs[j].id
    }
}

struct Shared {
    disk: RefCell<BTreeMap<String, u64>>,
}

pub struct Eng {
    e: PPGEvaluator<vs::StrategyForVerif>,
    pub calls: u32,
    disk: Option<Rc<Shared>>,
}

// ---- bridge trace: every engine call with its result and the query results after it, so that the
// ---- same evaluation can be replayed call by call through the real PyO3 class from python
// ---- (tools/pybridge_replay.py). Off unless bridge_trace_enable(true) was called on this thread.
thread_local! {
    static BRIDGE_ON: std::cell::Cell<bool> = const { std::cell::Cell::new(false) };
    static BRIDGE_CALLS: RefCell<Vec<serde_json::Value>> = const { RefCell::new(Vec::new()) };
    static BRIDGE_EVALS: RefCell<Vec<String>> = const { RefCell::new(Vec::new()) };
}
pub fn bridge_trace_enable(on: bool) {
    BRIDGE_ON.with(|b| b.set(on));
    BRIDGE_CALLS.with(|c| c.borrow_mut().clear());
}
pub fn bridge_trace_take() -> Vec<String> {
    BRIDGE_EVALS.with(|e| std::mem::take(&mut *e.borrow_mut()))
}
fn bridge_on() -> bool {
    BRIDGE_ON.with(|b| b.get())
}
fn res_kind(r: &CallRes) -> &'static str {
    match r {
        CallRes::Ok => "ok",
        CallRes::Api(_) => "api",
        CallRes::Internal(_) => "internal",
        CallRes::Contract => "contract",
        CallRes::Panic(_) => "panic",
    }
}

fn panic_msg(p: Box<dyn std::any::Any + Send>) -> String {
    if let Some(s) = p.downcast_ref::<&str>() {
        s.to_string()
    } else if let Some(s) = p.downcast_ref::<String>() {
        s.clone()
    } else {
        "<non-string panic>".to_string()
    }
}

fn conv(r: Result<Result<(), PPGEvaluatorError>, Box<dyn std::any::Any + Send>>) -> CallRes {
    match r {
        Ok(Ok(())) => CallRes::Ok,
        Ok(Err(PPGEvaluatorError::APIError(s))) => CallRes::Api(s),
        Ok(Err(PPGEvaluatorError::InternalError(s))) => CallRes::Internal(s),
        Ok(Err(PPGEvaluatorError::EphemeralChangedOutput { .. })) => CallRes::Contract,
        Err(p) => CallRes::Panic(panic_msg(p)),
    }
}

impl Eng {
    pub fn new(e: PPGEvaluator<vs::StrategyForVerif>) -> Self {
        Eng { e, calls: 0, disk: None }
    }
    /// bridge trace: one record per engine call (mutating calls and is_finished, which has a side effect)
    fn rec(&self, call: &str, job: Option<&str>, arg: Option<&str>, res: &str) {
        if !bridge_on() {
            return;
        }
        if call == "fin" {
            BRIDGE_CALLS.with(|c| c.borrow_mut().push(serde_json::json!({"c": call, "r": res})));
            return;
        }
        let disk: Vec<String> = match &self.disk {
            Some(sh) => sh.disk.borrow().keys().cloned().collect(),
            None => Vec::new(),
        };
        let q = if res == "panic" || res == "internal" {
            serde_json::Value::Null
        } else {
            serde_json::json!({
                "ready": self.ready(), "next": self.next_ready(), "running": self.running(),
                "cleanup": self.cleanup(), "uf": self.upstream_failed(),
            })
        };
        let v = serde_json::json!({"c": call, "j": job, "a": arg, "r": res, "disk": disk, "q": q});
        BRIDGE_CALLS.with(|c| c.borrow_mut().push(v));
    }
    pub fn add_node(&mut self, id: &str, k: JobKind) {
        self.e.add_node(id, k);
    }
    pub fn depends_on(&mut self, down: &str, up: &str) {
        self.e.depends_on(down, up);
    }
    pub fn startup(&mut self) -> CallRes {
        self.calls += 1;
        let r = conv(catch_unwind(AssertUnwindSafe(|| self.e.event_startup())));
        self.rec("startup", None, None, res_kind(&r));
        r
    }
    pub fn now_running(&mut self, id: &str) -> CallRes {
        self.calls += 1;
        let r = conv(catch_unwind(AssertUnwindSafe(|| self.e.event_now_running(id))));
        self.rec("start", Some(id), None, res_kind(&r));
        r
    }
    pub fn success(&mut self, id: &str, rec: String) -> CallRes {
        self.calls += 1;
        let rec_copy = rec.clone();
        let r = conv(catch_unwind(AssertUnwindSafe(|| self.e.event_job_finished_success(id, rec))));
        self.rec("ok", Some(id), Some(&rec_copy), res_kind(&r));
        r
    }
    pub fn failure(&mut self, id: &str) -> CallRes {
        self.calls += 1;
        let r = conv(catch_unwind(AssertUnwindSafe(|| self.e.event_job_finished_failure(id))));
        self.rec("fail", Some(id), None, res_kind(&r));
        r
    }
    pub fn cleanup_done(&mut self, id: &str) -> CallRes {
        self.calls += 1;
        let r = conv(catch_unwind(AssertUnwindSafe(|| self.e.event_job_cleanup_done(id))));
        self.rec("ack", Some(id), None, res_kind(&r));
        r
    }
    pub fn reconsider_all(&mut self) -> CallRes {
        self.calls += 1;
        let r = conv(catch_unwind(AssertUnwindSafe(|| self.e.reconsider_all_jobs())));
        self.rec("reconsider", None, None, res_kind(&r));
        r
    }
    pub fn abort(&mut self) -> CallRes {
        self.calls += 1;
        let r = conv(catch_unwind(AssertUnwindSafe(|| self.e.abort_remaining())));
        self.rec("abort", None, None, res_kind(&r));
        r
    }
    pub fn is_finished(&mut self) -> Result<bool, String> {
        let r = catch_unwind(AssertUnwindSafe(|| self.e.is_finished())).map_err(panic_msg);
        match &r {
            Ok(b) => self.rec("fin", None, None, if *b { "true" } else { "false" }),
            Err(_) => self.rec("fin", None, None, "panic"),
        }
        r
    }
    pub fn new_history(&self) -> Result<BTreeMap<String, String>, CallRes> {
        let r: Result<BTreeMap<String, String>, CallRes> = match catch_unwind(AssertUnwindSafe(|| self.e.new_history())) {
            Ok(Ok(h)) => Ok(h.into_iter().collect()),
            Ok(Err(PPGEvaluatorError::APIError(s))) => Err(CallRes::Api(s)),
            Ok(Err(PPGEvaluatorError::InternalError(s))) => Err(CallRes::Internal(s)),
            Ok(Err(PPGEvaluatorError::EphemeralChangedOutput { .. })) => Err(CallRes::Contract),
            Err(p) => Err(CallRes::Panic(panic_msg(p))),
        };
        if bridge_on() {
            match &r {
                Ok(h) => {
                    let txt = serde_json::to_string(h).unwrap_or_default();
                    self.rec("hist", None, Some(&txt), "ok")
                }
                Err(e) => self.rec("hist", None, None, res_kind(e)),
            }
        }
        r
    }
    fn sorted(h: impl IntoIterator<Item = String>) -> Vec<String> {
        let mut v: Vec<String> = h.into_iter().collect();
        v.sort();
        v
    }
    pub fn ready(&self) -> Vec<String> {
        Self::sorted(self.e.query_ready_to_run())
    }
    pub fn next_ready(&self) -> Option<String> {
        self.e.next_job_ready_to_run()
    }
    pub fn running(&self) -> Vec<String> {
        Self::sorted(self.e.query_jobs_running())
    }
    pub fn cleanup(&self) -> Vec<String> {
        Self::sorted(self.e.query_ready_for_cleanup())
    }
    pub fn failed(&self) -> Vec<String> {
        Self::sorted(self.e.query_failed())
    }
    pub fn upstream_failed(&self) -> Vec<String> {
        Self::sorted(self.e.query_upstream_failed())
    }
    pub fn snapshot(&self) -> vs::VSnapshot {
        self.e.verif_snapshot()
    }
    pub fn job_output(&self, id: &str) -> Option<String> {
        match self.e.get_job_output(id) {
            pypipegraph2::JobOutputResult::Done(x) => Some(x),
            _ => None,
        }
    }
}

/// normalise an engine message: job ids, numbers and state dumps removed so that the same
/// code site yields the same signature
pub fn normalise(msg: &str) -> String {
    let mut out = String::new();
    let cut = msg.find("NodeInfo").unwrap_or(msg.len());
    let m = &msg[..cut];
    let mut in_quote = false;
    for c in m.chars() {
        if c == '"' || c == '\'' {
            in_quote = !in_quote;
            continue;
        }
        if in_quote {
            continue;
        }
        if c.is_ascii_digit() {
            if !out.ends_with('#') {
                out.push('#');
            }
        } else {
            out.push(c);
        }
    }
    let out = out.trim().to_string();
    // job ids in our world look like j#, j#a ... ; strip them
    let toks: Vec<&str> = out
        .split_whitespace()
        .filter(|t| !(t.starts_with("j#") || t.contains(":::")))
        .collect();
    toks.join(" ")
}

struct RunInfo {
    job: usize,
    injected: Option<Leave>,
    seq: u64,
    finish_time: u64,
    inputs: Vec<(usize, String, u64)>,
    missing_input: bool,
}

pub struct EvalOptions {
    /// maximum number of actions before C05 declares non-termination (0 = structural bound)
    pub record_snapshots: bool,
}

#[allow(clippy::too_many_lines)]
pub fn evaluate(sc_cfg: &Config, defs: &[Def], world: &mut World, plan: &EvalPlan, round_salt: u64) -> EvalOut {
    let gv = GraphView::build(defs, &world.g);
    let n = gv.jobs.len();
    let live = gv.live();
    let shared = Rc::new(Shared { disk: RefCell::new(world.disk.clone()) });
    let disk_before = world.disk.clone();
    let h_in = world.history.clone();

    // ---- build the evaluator -------------------------------------------------------------
    vs::set_hash_seed(plan.hash_seed);
    vs::enable_transition_log(true);
    let mut hist = <vs::HashMap<String, String> as vs::SeamNew>::new();
    for (k, v) in h_in.iter() {
        hist.insert(k.clone(), v.clone());
    }
    let parts_of: Rc<BTreeMap<String, Vec<String>>> =
        Rc::new(gv.jobs.iter().map(|j| (j.id.clone(), j.parts.clone())).collect());
    let inputs_of: Rc<BTreeMap<String, Vec<String>>> =
        Rc::new(gv.jobs.iter().map(|j| (j.id.clone(), j.consumed_names.clone())).collect());
    let names_of: Rc<BTreeMap<String, String>> =
        Rc::new((0..n).map(|i| (gv.jobs[i].id.clone(), gv.names(sc_cfg, i))).collect());
    let strategy = {
        let sh = shared.clone();
        let po = parts_of.clone();
        let po2 = parts_of.clone();
        let io = inputs_of.clone();
        let cfg = sc_cfg.clone();
        let no = names_of.clone();
        let names_mode = sc_cfg.names;
        vs::StrategyForVerif {
            present: Box::new(move |q: &str| {
                let d = sh.disk.borrow();
                match po.get(q) {
                    Some(parts) => parts.iter().all(|p| d.contains_key(p)),
                    None => q.split(ID_SEP).all(|p| d.contains_key(p)),
                }
            }),
            altered: Box::new(move |up: &str, down: &str, last: &str, now: &str| {
                let empty = Vec::new();
                let up_parts = po2.get(up).unwrap_or(&empty);
                let r = if down == "!!!" {
                    altered(&cfg, up_parts, None, last, now)
                } else {
                    altered(&cfg, up_parts, Some(io.get(down).unwrap_or(&empty)), last, now)
                };
                match r {
                    Ok(b) => b,
                    Err(e) => panic!("History comparison failed on python side: {}", e),
                }
            }),
            input_list: Box::new(move |job: &str, ups: &[&str]| match names_mode {
                Names::JobIds => ups.join("\n"),
                Names::Parts => no.get(job).cloned().unwrap_or_default(),
            }),
        }
    };
    let mut eng = Eng { e: PPGEvaluator::new_with_history(hist, strategy), calls: 0, disk: Some(shared.clone()) };
    let mut bridge_decl: (Vec<String>, Vec<(String, String)>) = (Vec::new(), Vec::new());
    if bridge_on() {
        BRIDGE_CALLS.with(|c| c.borrow_mut().clear());
    }
    {
        // declaration order
        let mut nodes: Vec<usize> = (0..n).collect();
        let mut edges: Vec<(usize, usize)> = Vec::new();
        for (d, j) in gv.jobs.iter().enumerate() {
            for (u, _) in j.ups.iter() {
                edges.push((d, *u));
            }
        }
        if plan.decl_seed != 0 {
            let mut r = Rng::new(plan.decl_seed);
            r.shuffle(&mut nodes);
            r.shuffle(&mut edges);
        }
        for i in nodes {
            let k = match gv.jobs[i].kind {
                Kind::Always => JobKind::Always,
                Kind::Output => JobKind::Output,
                Kind::Ephemeral => JobKind::Ephemeral,
            };
            eng.e.add_node(&gv.jobs[i].id, k);
            bridge_decl.0.push(gv.jobs[i].id.clone());
        }
        for (d, u) in edges {
            eng.e.depends_on(&gv.jobs[d].id, &gv.jobs[u].id);
            bridge_decl.1.push((gv.jobs[d].id.clone(), gv.jobs[u].id.clone()));
        }
    }

    let mut out = EvalOut {
        gv: gv.clone(),
        h_in: h_in.clone(),
        h_out: None,
        disk_before,
        disk_after: BTreeMap::new(),
        events: Vec::new(),
        started: BTreeSet::new(),
        ok: BTreeMap::new(),
        failed: BTreeSet::new(),
        contract_err: BTreeSet::new(),
        missing_input_fail: BTreeSet::new(),
        running_at_abort: BTreeSet::new(),
        cleanup_offered: BTreeSet::new(),
        cleanup_acked: BTreeSet::new(),
        disp: vec![Disp::Skipped; n],
        final_states: Vec::new(),
        job_outputs: vec![None; n],
        upstream_failed_q: BTreeSet::new(),
        failed_q: BTreeSet::new(),
        violations: Vec::new(),
        engine_error: None,
        aborted: false,
        abort_fired_at: None,
        probes: Probes::new(),
        n_actions: 0,
        n_calls: 0,
        decisions_digest: 0,
        max_in_flight: 0,
        clock_start: world.clock,
        clock_end: world.clock,
        blocked: BTreeSet::new(),
        misuse_done: 0,
        features: BTreeSet::new(),
        consumed_vals: BTreeMap::new(),
        produced_vals: BTreeMap::new(),
        consumed_at_start: BTreeMap::new(),
    };

    let mut st = DriverState {
        fail_started: &plan.fail_started,
        fail_validated_eph: plan.fail_validated_eph,
        gv: &gv,
        live: &live,
        cfg: sc_cfg,
        h_in: &h_in,
        shared: shared.clone(),
        tmp: BTreeMap::new(),
        reconsidered_at: BTreeSet::new(),
        running: Vec::new(),
        ready_prev: BTreeSet::new(),
        offered_ever: BTreeSet::new(),
        cleanup_prev: BTreeSet::new(),
        kinds_seen: BTreeMap::new(),
        rank_seen: BTreeMap::new(),
        success_seen: BTreeSet::new(),
        seq: 0,
        clock: world.clock,
        action_idx: 0,
        fatal: false,
        finished_seen: false,
    };

    // ---- misuse before the evaluation was started -------------------------------------------
    for m in plan.misuse.iter().filter(|m| m.before_startup && m.call < 4) {
        probe(&mut out.probes, "misuse_before_startup");
        st.do_misuse(&mut eng, &mut out, m);
        if st.fatal {
            break;
        }
    }
    // ---- startup -------------------------------------------------------------------------
    let r = if st.fatal { CallRes::Ok } else { eng.startup() };
    st.legal_result(&mut out, "event_startup", &r);
    if !st.fatal {
        st.observe(&mut eng, &mut out);
    }

    let mut rng = Rng::new(plan.sched_seed);
    let mut pct_salt = plan.sched_seed;
    let pct_changes: Vec<u32> = {
        let mut r = Rng::new(hash2(plan.sched_seed, 77));
        (0..2).map(|_| r.below(3 * n + 2) as u32).collect()
    };
    let cap = (3 * n + 4) as u32;
    let mut misuse_i = 0usize;
    let mut misuse_sorted: Vec<MisusePlan> = plan.misuse.iter().filter(|m| !(m.before_startup && m.call < 4)).cloned().collect();
    misuse_sorted.sort_by_key(|m| m.at);

    // ---- main loop -----------------------------------------------------------------------
    while !st.fatal {
        // misuse injection (does not count as an action)
        while misuse_i < misuse_sorted.len() && misuse_sorted[misuse_i].at <= st.action_idx {
            let m = misuse_sorted[misuse_i].clone();
            misuse_i += 1;
            st.do_misuse(&mut eng, &mut out, &m);
            if st.fatal {
                break;
            }
        }
        if st.fatal {
            break;
        }
        // spurious reconsideration: a legal, public call (kept by runner.py as a debugging aid). It may
        // bring a lazily deferred decision forward (counted), every monitor keeps running after it
        if plan.reconsider.contains(&st.action_idx) && !st.reconsidered_at.contains(&st.action_idx) {
            st.reconsidered_at.insert(st.action_idx);
            let before = (eng.snapshot(), eng.ready(), eng.cleanup());
            let r = eng.reconsider_all();
            probe(&mut out.probes, "reconsider_all_jobs_called");
            st.legal_result(&mut out, "reconsider_all_jobs", &r);
            if st.fatal {
                break;
            }
            let after = (eng.snapshot(), eng.ready(), eng.cleanup());
            if before != after {
                probe(&mut out.probes, "reconsider_all_jobs_changed_state");
            }
            st.observe(&mut eng, &mut out);
        }
        let fin = match eng.is_finished() {
            Ok(b) => b,
            Err(p) => {
                st.fatal(&mut out, "is_finished", &CallRes::Panic(p));
                break;
            }
        };
        // abort
        if let Some(ab) = &plan.abort {
            if ab.at == st.action_idx && !out.aborted {
                st.do_abort(&mut eng, &mut out, ab, world);
                break;
            }
        }
        if fin {
            st.finished_seen = true;
            break;
        }
        // enabled actions
        let ready: Vec<usize> = eng.ready().iter().filter_map(|id| gv.idx.get(id).copied()).collect();
        let cleanup: Vec<usize> = eng.cleanup().iter().filter_map(|id| gv.idx.get(id).copied()).collect();
        let workers = if plan.workers == 0 { usize::MAX } else { plan.workers as usize };
        let can_start = st.running.len() < workers && !ready.is_empty();
        if !can_start && st.running.is_empty() && (cleanup.is_empty() || plan.policy == Policy::LateAcks) {
            // nothing can make progress
            if ready.is_empty() {
                out.violations.push(Violation {
                    prop: "C05",
                    clause: "stall".into(),
                    msg: "evaluation not finished, nothing ready, nothing running".into(),
                });
                st.fatal = true;
                if out.engine_error.is_none() {
                    out.engine_error = Some("stall".into());
                }
                break;
            }
        }
        if st.action_idx > cap + 2 * (plan.misuse.len() as u32) {
            out.violations.push(Violation {
                prop: "C05",
                clause: "no-termination".into(),
                msg: format!("more than {} actions for {} jobs", cap, n),
            });
            st.fatal = true;
            if out.engine_error.is_none() {
                out.engine_error = Some("no-termination".into());
            }
            break;
        }
        if plan.policy == Policy::Pct && pct_changes.contains(&st.action_idx) {
            pct_salt = hash2(pct_salt, st.action_idx as u64);
        }
        #[derive(Clone, Copy, Debug)]
        enum Act {
            Start(usize),
            Finish(usize), // index into running
            Ack(usize),
        }
        let mut acts: Vec<Act> = Vec::new();
        match plan.policy {
            Policy::Uniform | Policy::LateAcks => {
                if can_start {
                    for j in ready.iter() {
                        acts.push(Act::Start(*j));
                    }
                }
                for i in 0..st.running.len() {
                    acts.push(Act::Finish(i));
                }
                if plan.policy == Policy::Uniform {
                    for c in cleanup.iter() {
                        acts.push(Act::Ack(*c));
                    }
                }
                if !acts.is_empty() {
                    let k = rng.below(acts.len());
                    acts = vec![acts[k]];
                }
            }
            Policy::Sequential => {
                if let Some(c) = cleanup.first() {
                    acts.push(Act::Ack(*c));
                } else if !st.running.is_empty() {
                    acts.push(Act::Finish(0));
                } else if let Some(id) = eng.next_ready() {
                    if let Some(j) = gv.idx.get(&id) {
                        acts.push(Act::Start(*j));
                    }
                }
            }
            Policy::Eager => {
                if can_start {
                    acts.push(Act::Start(*rng.pick(&ready)));
                } else {
                    for i in 0..st.running.len() {
                        acts.push(Act::Finish(i));
                    }
                    for c in cleanup.iter() {
                        acts.push(Act::Ack(*c));
                    }
                    if !acts.is_empty() {
                        let k = rng.below(acts.len());
                        acts = vec![acts[k]];
                    }
                }
            }
            Policy::Lifo => {
                if let Some(c) = cleanup.first() {
                    acts.push(Act::Ack(*c));
                } else if can_start && (st.running.is_empty() || rng.chance(1, 2)) {
                    acts.push(Act::Start(*rng.pick(&ready)));
                } else if !st.running.is_empty() {
                    let mut best = 0;
                    for i in 0..st.running.len() {
                        if st.running[i].seq > st.running[best].seq {
                            best = i;
                        }
                    }
                    acts.push(Act::Finish(best));
                }
            }
            Policy::PyRunner => {
                // one worker cycle: ack all offered cleanups, then start one job if a worker is free
                if let Some(c) = cleanup.first() {
                    // acks happen under the same lock acquisition as the start; deliver one at a time
                    acts.push(Act::Ack(*c));
                } else if can_start {
                    if let Some(id) = eng.next_ready() {
                        if let Some(j) = gv.idx.get(&id) {
                            acts.push(Act::Start(*j));
                        }
                    }
                } else if !st.running.is_empty() {
                    let mut best = 0;
                    for i in 0..st.running.len() {
                        let a = (&st.running[i].finish_time, &st.running[i].seq);
                        let b = (&st.running[best].finish_time, &st.running[best].seq);
                        if a < b {
                            best = i;
                        }
                    }
                    acts.push(Act::Finish(best));
                }
            }
            Policy::Pct => {
                let mut best: Option<(u64, Act)> = None;
                let mut consider = |p: u64, a: Act| {
                    if best.map(|(bp, _)| p > bp).unwrap_or(true) {
                        best = Some((p, a));
                    }
                };
                if can_start {
                    for j in ready.iter() {
                        consider(hash2(pct_salt, hash_str(&gv.jobs[*j].id)), Act::Start(*j));
                    }
                }
                for i in 0..st.running.len() {
                    consider(
                        hash2(pct_salt ^ 0x55, hash_str(&gv.jobs[st.running[i].job].id)),
                        Act::Finish(i),
                    );
                }
                for c in cleanup.iter() {
                    consider(hash2(pct_salt ^ 0xAA, hash_str(&gv.jobs[*c].id)), Act::Ack(*c));
                }
                if let Some((_, a)) = best {
                    acts.push(a);
                }
            }
        }
        let act = match acts.first() {
            Some(a) => *a,
            None => {
                // policy had nothing although something is enabled: fall back to lowest sorted
                if can_start {
                    Act::Start(ready[0])
                } else if !st.running.is_empty() {
                    Act::Finish(0)
                } else if let Some(c) = cleanup.first() {
                    Act::Ack(*c)
                } else {
                    break;
                }
            }
        };
        // perform
        match act {
            Act::Start(j) => {
                out.decisions_digest = hash2(out.decisions_digest, hash2(1, hash_str(&gv.jobs[j].id)));
                let dur = 1 + rng.below(9) as u64;
                st.do_start(&mut eng, &mut out, defs, j, dur);
            }
            Act::Finish(i) => {
                let j = st.running[i].job;
                out.decisions_digest = hash2(out.decisions_digest, hash2(2, hash_str(&gv.jobs[j].id)));
                st.do_finish(&mut eng, &mut out, defs, plan, world, i, round_salt);
            }
            Act::Ack(c) => {
                out.decisions_digest = hash2(out.decisions_digest, hash2(3, hash_str(&gv.jobs[c].id)));
                st.do_ack(&mut eng, &mut out, c);
            }
        }
        st.action_idx += 1;
        if !st.fatal {
            st.observe(&mut eng, &mut out);
        }
        out.max_in_flight = out.max_in_flight.max(st.running.len());
    }

    // ---- after the loop --------------------------------------------------------------------
    if !st.fatal && st.finished_seen && !out.aborted {
        // late acks
        let cleanup: Vec<usize> = eng.cleanup().iter().filter_map(|id| gv.idx.get(id).copied()).collect();
        if !cleanup.is_empty() {
            probe(&mut out.probes, "cleanup_acked_after_finish");
        }
        for c in cleanup {
            st.do_ack(&mut eng, &mut out, c);
            if st.fatal {
                break;
            }
            st.observe(&mut eng, &mut out);
        }
    }
    if !st.fatal && (st.finished_seen || out.aborted) {
        // trailing misuse (after finish, and after an abort: the evaluation is over, the history not yet fetched)
        while !st.fatal && misuse_i < misuse_sorted.len() {
            let m = misuse_sorted[misuse_i].clone();
            misuse_i += 1;
            if out.aborted {
                probe(&mut out.probes, "misuse_after_abort");
            }
            st.do_misuse(&mut eng, &mut out, &m);
        }
    }
    if !st.fatal {
        // C05: once finished nothing is ready or running
        let fin = eng.is_finished().unwrap_or(false);
        if fin {
            let r = eng.ready();
            let ru = eng.running();
            if !r.is_empty() || !ru.is_empty() {
                out.violations.push(Violation {
                    prop: if out.aborted { "C10" } else { "C05" },
                    clause: "finished-but-ready-or-running".into(),
                    msg: format!("finished with {} ready and {} running jobs reported", r.len(), ru.len()),
                });
            }
        } else if out.aborted {
            out.violations.push(Violation {
                prop: "C10",
                clause: "not-finished-after-abort".into(),
                msg: "is_finished() false after abort_remaining".into(),
            });
        }
        if fin {
            match eng.new_history() {
                Ok(h) => out.h_out = Some(h),
                Err(r) => {
                    if out.aborted {
                        out.violations.push(Violation {
                            prop: "C10",
                            clause: "history-after-abort".into(),
                            msg: format!("new_history after abort: {}", normalise(&format!("{:?}", r))),
                        });
                    }
                    st.fatal(&mut out, "new_history", &r);
                }
            }
        }
    }
    // final bookkeeping
    let snap = eng.snapshot();
    let mut state_of: BTreeMap<&str, vs::VState> = BTreeMap::new();
    for j in snap.jobs.iter() {
        state_of.insert(&j.job_id, j.state);
    }
    out.final_states = gv
        .jobs
        .iter()
        .map(|j| *state_of.get(j.id.as_str()).unwrap_or(&vs::VState { kind: 9, code: 99, vs: 0 }))
        .collect();
    for i in 0..n {
        out.job_outputs[i] = eng.job_output(&gv.jobs[i].id);
    }
    out.upstream_failed_q = eng.upstream_failed().iter().filter_map(|id| gv.idx.get(id).copied()).collect();
    out.failed_q = eng.failed().iter().filter_map(|id| gv.idx.get(id).copied()).collect();
    for i in 0..n {
        out.disp[i] = if out.ok.contains_key(&i) {
            Disp::ExecOk
        } else if out.failed.contains(&i) || out.contract_err.contains(&i) {
            Disp::Failed
        } else if out.running_at_abort.contains(&i) {
            Disp::AbortedRunning
        } else if out.upstream_failed_q.contains(&i) {
            Disp::UpstreamFailed
        } else if out.final_states[i].code == vs::ST_ABORTED {
            Disp::AbortedNeverStarted
        } else {
            Disp::Skipped
        };
    }
    out.n_actions = st.action_idx;
    out.n_calls = eng.calls;
    out.clock_end = st.clock;
    out.disk_after = shared.disk.borrow().clone();
    // update the world: disk always; history only if the engine returned one
    world.disk = out.disk_after.clone();
    world.clock = st.clock + 1;
    if let Some(h) = &out.h_out {
        world.history = h.clone();
    }
    vs::enable_transition_log(false);
    if bridge_on() {
        let calls = BRIDGE_CALLS.with(|c| std::mem::take(&mut *c.borrow_mut()));
        let jobs: Vec<serde_json::Value> = (0..n)
            .map(|i| {
                serde_json::json!({
                    "id": gv.jobs[i].id, "kind": format!("{:?}", gv.jobs[i].kind), "parts": gv.jobs[i].parts,
                    "consumed": gv.jobs[i].consumed_names, "names": gv.names(sc_cfg, i),
                })
            })
            .collect();
        let outputs: BTreeMap<String, Option<String>> =
            (0..n).map(|i| (gv.jobs[i].id.clone(), out.job_outputs[i].clone())).collect();
        let v = serde_json::json!({
            "cmp": format!("{:?}", sc_cfg.cmp), "names_mode": format!("{:?}", sc_cfg.names), "hash_seed": plan.hash_seed,
            "history": out.h_in, "disk0": out.disk_before.keys().collect::<Vec<_>>(),
            "jobs": jobs, "nodes": bridge_decl.0, "edges": bridge_decl.1,
            "calls": calls, "history_out": out.h_out, "outputs": outputs,
            "engine_error": out.engine_error,
        });
        BRIDGE_EVALS.with(|e| e.borrow_mut().push(v.to_string()));
    }
    out
}

struct DriverState<'a> {
    fail_started: &'a BTreeMap<u32, Leave>,
    fail_validated_eph: Option<Leave>,
    gv: &'a GraphView,
    live: &'a [bool],
    cfg: &'a Config,
    h_in: &'a BTreeMap<String, String>,
    shared: Rc<Shared>,
    tmp: BTreeMap<String, u64>,
    reconsidered_at: BTreeSet<u32>,
    running: Vec<RunInfo>,
    ready_prev: BTreeSet<usize>,
    offered_ever: BTreeSet<usize>,
    cleanup_prev: BTreeSet<usize>,
    kinds_seen: BTreeMap<String, u8>,
    rank_seen: BTreeMap<String, u8>,
    success_seen: BTreeSet<String>,
    seq: u64,
    clock: u64,
    action_idx: u32,
    fatal: bool,
    finished_seen: bool,
}

fn rank(code: u8) -> u8 {
    match code {
        vs::ST_NOT_READY => 0,
        vs::ST_DELAYED => 1,
        vs::ST_READY => 2,
        vs::ST_RUNNING => 3,
        _ => 4,
    }
}

fn is_success_code(code: u8) -> bool {
    matches!(
        code,
        vs::ST_SUCCESS | vs::ST_SUCCESS_READY_CLEANUP | vs::ST_SUCCESS_CLEANED | vs::ST_SUCCESS_SKIP_CLEANUP
    )
}

impl<'a> DriverState<'a> {
    fn viol(&self, out: &mut EvalOut, prop: &'static str, clause: &str, msg: String) {
        out.violations.push(Violation { prop, clause: clause.to_string(), msg });
    }

    fn fatal(&mut self, out: &mut EvalOut, call: &str, r: &CallRes) {
        self.fatal = true;
        let (kind, m) = match r {
            CallRes::Panic(m) => ("panic", m.clone()),
            CallRes::Internal(m) => ("internal-error", m.clone()),
            CallRes::Api(m) => ("api-error-on-legal-call", m.clone()),
            CallRes::Contract => ("unjustified-contract-error", String::new()),
            CallRes::Ok => ("ok", String::new()),
        };
        let nm = normalise(&m);
        if out.engine_error.is_none() {
            out.engine_error = Some(format!("{} in {}: {}", kind, call, nm));
        }
        out.violations.push(Violation {
            prop: "C06",
            clause: kind.to_string(),
            msg: format!("{}: {}", call, nm),
        });
    }

    /// a legal call must return Ok
    fn legal_result(&mut self, out: &mut EvalOut, call: &str, r: &CallRes) {
        if *r != CallRes::Ok {
            self.fatal(out, call, r);
        }
    }

    fn do_start(&mut self, eng: &mut Eng, out: &mut EvalOut, _defs: &[Def], j: usize, dur: u64) {
        let gv = self.gv;
        // C02 (again at start)
        self.check_inputs(eng, out, j, "at-start");
        if out.blocked.contains(&j) {
            self.viol(
                out,
                "C07",
                "blocked-job-started",
                format!("{} ({:?}) could be started although a job it depends on has failed", gv.jobs[j].id, gv.jobs[j].kind),
            );
        }
        let r = eng.now_running(&gv.jobs[j].id);
        self.legal_result(out, "event_now_running", &r);
        if self.fatal {
            return;
        }
        // read inputs now
        let mut inputs = Vec::new();
        let mut missing = false;
        {
            let disk = self.shared.disk.borrow();
            for (u, consumed) in gv.jobs[j].ups.iter() {
                let uj = &gv.jobs[*u];
                for p in consumed {
                    let v = match uj.kind {
                        Kind::Output => disk.get(p).copied(),
                        _ => self.tmp.get(p).copied(),
                    };
                    match v {
                        Some(v) => inputs.push((uj.def, p.clone(), v)),
                        None => missing = true,
                    }
                }
            }
        }
        if missing {
            probe(&mut out.probes, "job_started_with_missing_input");
        }
        self.seq += 1;
        self.clock += 1;
        let ordinal = out.started.len() as u32;
        // what each upstream's current output is at the moment the job starts = what it consumes
        for (u, _) in gv.jobs[j].ups.iter() {
            if let Some(x) = eng.job_output(&gv.jobs[*u].id) {
                out.consumed_at_start.insert((j, *u), x);
            }
        }
        let mut injected = self.fail_started.get(&ordinal).copied();
        if injected.is_none() && self.fail_validated_eph.is_some() && gv.jobs[j].kind == Kind::Ephemeral {
            let snap = eng.snapshot();
            if snap.jobs.iter().any(|x| x.job_id == gv.jobs[j].id && x.state.code == vs::ST_RUNNING && x.state.vs == 1) {
                injected = self.fail_validated_eph;
            }
        }
        self.running.push(RunInfo {
            job: j,
            injected,
            seq: self.seq,
            finish_time: self.clock + dur,
            inputs,
            missing_input: missing,
        });
        out.started.insert(j);
        out.events.push((self.action_idx, Ev::Start(j)));
        if self.running.len() >= 3 {
            probe(&mut out.probes, "three_or_more_in_flight");
        }
    }

    fn leave_output(&mut self, world: &mut World, j: usize, leave: Leave) {
        let gv = self.gv;
        if gv.jobs[j].kind != Kind::Output {
            let mut disk = self.shared.disk.borrow_mut();
            for p in gv.jobs[j].parts.iter() {
                disk.remove(p);
            }
        } else {
            let mut disk = self.shared.disk.borrow_mut();
            for p in gv.jobs[j].parts.iter() {
                match leave {
                    Leave::Garbage => {
                        disk.insert(p.clone(), world.next_garbage());
                    }
                    Leave::Untouched => {}
                    Leave::Removed => {
                        disk.remove(p);
                    }
                }
            }
        }
    }

    #[allow(clippy::too_many_arguments)]
    fn do_finish(
        &mut self,
        eng: &mut Eng,
        out: &mut EvalOut,
        defs: &[Def],
        plan: &EvalPlan,
        world: &mut World,
        ri: usize,
        round_salt: u64,
    ) {
        let gv = self.gv;
        let info = self.running.remove(ri);
        let j = info.job;
        let job = &gv.jobs[j];
        self.clock = (self.clock + 1).max(if plan.policy == Policy::PyRunner { info.finish_time } else { 0 });
        let injected = plan.fail.get(&job.def).copied().or(info.injected);
        if injected.is_some() || info.missing_input {
            let why = if injected.is_some() { FailWhy::Injected } else { FailWhy::MissingInput };
            if info.missing_input {
                out.missing_input_fail.insert(j);
            }
            if self.h_in.contains_key(&job.id) {
                probe(&mut out.probes, "failure_of_job_with_history");
            }
            if !out.ok.is_empty() {
                probe(&mut out.probes, "failure_after_some_success");
            }
            self.leave_output(world, j, injected.unwrap_or(Leave::Garbage));
            out.failed.insert(j);
            out.events.push((self.action_idx, Ev::Fail(j, why)));
            self.recompute_blocked(out);
            let r = eng.failure(&job.id);
            self.legal_result(out, "event_job_finished_failure", &r);
            return;
        }
        // success: compute and write outputs
        let mut vals: Vec<(String, u64)> = Vec::new();
        let contract = plan.contract.get(&job.def).copied();
        for p in job.parts.iter() {
            let mut v = content(defs, job, p, &info.inputs);
            if contract == Some(ContractMode::Semantic) && job.kind == Kind::Ephemeral {
                v = hash2(v, hash2(0xC0_47AC7, round_salt));
            }
            vals.push((p.clone(), v));
        }
        let mut noise = if self.cfg.noise { self.clock } else { 0 };
        if contract == Some(ContractMode::Textual) && job.kind == Kind::Ephemeral {
            noise = self.clock + 1_000_000;
        }
        let rec = format_record(&vals, noise);
        match job.kind {
            Kind::Output => {
                let mut disk = self.shared.disk.borrow_mut();
                for (p, v) in vals.iter() {
                    disk.insert(p.clone(), *v);
                }
            }
            _ => {
                // a temp job writes to the same path and the file is removed afterwards: whatever an
                // earlier incarnation of this job as an Output job left on disk is gone
                let mut disk = self.shared.disk.borrow_mut();
                for (p, v) in vals.iter() {
                    self.tmp.insert(p.clone(), *v);
                    disk.remove(p);
                }
            }
        }
        // was this a validated ephemeral re-executed? (Running(Validated))
        let was_validated_eph = job.kind == Kind::Ephemeral && {
            let snap = eng.snapshot();
            snap.jobs.iter().any(|x| x.job_id == job.id && x.state.code == vs::ST_RUNNING && x.state.vs == 1)
        };
        if was_validated_eph {
            probe(&mut out.probes, "validated_ephemeral_reexecuted");
        }
        let r = eng.success(&job.id, rec.clone());
        match r {
            CallRes::Ok => {
                out.consumed_vals.insert(j, info.inputs.iter().map(|(_, p, v)| (p.clone(), *v)).collect());
                for (p, v) in vals.iter() {
                    out.produced_vals.insert(p.clone(), *v);
                }
                out.ok.insert(j, rec.clone());
                out.events.push((self.action_idx, Ev::Ok(j, rec.clone())));
                // C16: a validated ephemeral that reported a cmp-different output must be rejected
                if was_validated_eph {
                    if let Some(old) = self.h_in.get(&job.id) {
                        if let Ok(true) = altered(self.cfg, &job.parts, None, old, &rec) {
                            self.viol(
                                out,
                                "C16",
                                "changed-output-not-detected",
                                format!("validated Ephemeral {} reported an altered output and was accepted", job.id),
                            );
                        }
                    }
                }
            }
            CallRes::Contract => {
                // justified iff: was validated, has own record, and the record is cmp-different
                let justified = was_validated_eph
                    && self
                        .h_in
                        .get(&job.id)
                        .map(|old| matches!(altered(self.cfg, &job.parts, None, old, &rec), Ok(true)))
                        .unwrap_or(false);
                out.contract_err.insert(j);
                out.events.push((self.action_idx, Ev::ContractErr(j)));
                self.tmp.retain(|p, _| !job.parts.contains(p));
                self.recompute_blocked(out);
                if !justified {
                    self.viol(
                        out,
                        "C16",
                        "unjustified-contract-error",
                        format!(
                            "EphemeralChangedOutput for {} (validated={}, has record={})",
                            job.id,
                            was_validated_eph,
                            self.h_in.contains_key(&job.id)
                        ),
                    );
                    self.viol(
                        out,
                        "C06",
                        "unjustified-contract-error",
                        "EphemeralChangedOutput without an injected, comparison-visible change".to_string(),
                    );
                }
                if plan.contract.is_empty() {
                    probe(&mut out.probes, "contract_error_without_injection");
                }
            }
            other => {
                self.fatal(out, "event_job_finished_success", &other);
            }
        }
    }

    fn do_ack(&mut self, eng: &mut Eng, out: &mut EvalOut, c: usize) {
        let gv = self.gv;
        self.clock += 1;
        let r = eng.cleanup_done(&gv.jobs[c].id);
        self.legal_result(out, "event_job_cleanup_done", &r);
        if self.fatal {
            return;
        }
        out.cleanup_acked.insert(c);
        out.events.push((self.action_idx, Ev::Ack(c)));
        // the temp product is gone now
        for p in gv.jobs[c].parts.iter() {
            self.tmp.remove(p);
        }
    }

    fn do_abort(&mut self, eng: &mut Eng, out: &mut EvalOut, ab: &AbortPlan, world: &mut World) {
        let gv = self.gv;
        let mut running: Vec<usize> = self.running.iter().map(|r| r.job).collect();
        running.sort_by(|a, b| gv.jobs[*a].id.cmp(&gv.jobs[*b].id));
        let mut failed_first = Vec::new();
        let mut still = Vec::new();
        for (i, j) in running.iter().enumerate() {
            let f = match ab.fail_running {
                FailRunning::All => true,
                FailRunning::None => false,
                FailRunning::Some(bits) => (bits >> (i % 64)) & 1 == 1,
            };
            if f {
                failed_first.push(*j);
            } else {
                still.push(*j);
            }
        }
        if running.len() >= 2 {
            probe(&mut out.probes, "abort_with_two_or_more_running");
        }
        if running.is_empty() {
            probe(&mut out.probes, "abort_with_nothing_running");
        }
        for j in failed_first.iter() {
            self.leave_output(world, *j, ab.leave);
            out.failed.insert(*j);
            out.events.push((self.action_idx, Ev::Fail(*j, FailWhy::AbortKill)));
            let r = eng.failure(&gv.jobs[*j].id);
            self.legal_result(out, "event_job_finished_failure", &r);
            if self.fatal {
                return;
            }
        }
        for j in still.iter() {
            self.leave_output(world, *j, ab.leave);
            out.running_at_abort.insert(*j);
        }
        self.running.clear();
        out.events.push((
            self.action_idx,
            Ev::Abort { failed_first: failed_first.clone(), still_running: still.clone() },
        ));
        out.aborted = true;
        out.abort_fired_at = Some(self.action_idx);
        let r = eng.abort();
        if r != CallRes::Ok {
            self.viol(
                out,
                "C10",
                "abort-returned-error",
                format!("abort_remaining: {}", normalise(&format!("{:?}", r))),
            );
            self.fatal(out, "abort_remaining", &r);
            return;
        }
        self.observe_after_abort(eng, out);
    }

    fn observe_after_abort(&mut self, eng: &mut Eng, out: &mut EvalOut) {
        // transitions are still checked for monotonicity (C17)
        self.check_transitions(out);
        let _ = eng;
    }

    fn recompute_blocked(&mut self, out: &mut EvalOut) {
        // B := least set of not-yet-started jobs with a direct upstream that failed or is in B
        let gv = self.gv;
        let mut changed = true;
        while changed {
            changed = false;
            for i in 0..gv.jobs.len() {
                if out.started.contains(&i) || out.blocked.contains(&i) {
                    continue;
                }
                let hit = gv.jobs[i].ups.iter().any(|(u, _)| {
                    out.failed.contains(u) || out.contract_err.contains(u) || out.blocked.contains(u)
                });
                if hit {
                    out.blocked.insert(i);
                    changed = true;
                }
            }
        }
    }

    fn check_transitions(&mut self, out: &mut EvalOut) {
        for t in vs::drain_transitions() {
            // kind never changes
            if t.from.kind != t.to.kind {
                self.viol(out, "C17", "kind-changed", format!("{} kind {} -> {}", t.job_id, t.from.kind, t.to.kind));
            }
            let k = *self.kinds_seen.entry(t.job_id.clone()).or_insert(t.from.kind);
            if k != t.to.kind {
                self.viol(out, "C17", "kind-changed", format!("{} kind {} -> {}", t.job_id, k, t.to.kind));
            }
            let (rf, rt) = (rank(t.from.code), rank(t.to.code));
            if rt < rf {
                self.viol(
                    out,
                    "C17",
                    "state-went-backwards",
                    format!("{} state code {} -> {}", t.job_id, t.from.code, t.to.code),
                );
            }
            if rf == 4 && rt < 4 {
                self.viol(out, "C17", "finished-became-unfinished", format!("{} {} -> {}", t.job_id, t.from.code, t.to.code));
            }
            if is_success_code(t.from.code) && !is_success_code(t.to.code) {
                self.viol(
                    out,
                    "C17",
                    "success-became-something-else",
                    format!("{} {} -> {}", t.job_id, t.from.code, t.to.code),
                );
            }
            if rf == 4 && rt == 4 && !is_success_code(t.from.code) {
                // finished non-success states are terminal, except Output Skipped -> UpstreamFailure
                // (not excluded by the statement) and identical re-assignments
                let allowed = t.from.code == t.to.code
                    || (t.from.code == vs::ST_SKIPPED && t.to.code == vs::ST_UPSTREAM_FAILURE);
                if !allowed {
                    self.viol(
                        out,
                        "C17",
                        "terminal-state-changed",
                        format!("{} {} -> {}", t.job_id, t.from.code, t.to.code),
                    );
                }
            }
            // a job becomes ready at most once
            if t.to.code == vs::ST_READY && t.from.code != vs::ST_READY {
                let e = self.rank_seen.entry(t.job_id.clone()).or_insert(0);
                *e += 1;
                if *e > 1 {
                    self.viol(out, "C17", "ready-twice", format!("{} became ready twice", t.job_id));
                }
            }
            if is_success_code(t.to.code) {
                self.success_seen.insert(t.job_id.clone());
            }
        }
    }

    /// C02: every input of `j` is materialised
    fn check_inputs(&mut self, eng: &Eng, out: &mut EvalOut, j: usize, when: &str) {
        let gv = self.gv;
        let snap = eng.snapshot();
        let state_of: BTreeMap<&str, &vs::VJob> = snap.jobs.iter().map(|x| (x.job_id.as_str(), x)).collect();
        for (u, consumed) in gv.jobs[j].ups.iter() {
            let uj = &gv.jobs[*u];
            let stt = state_of.get(uj.id.as_str()).map(|x| x.state.code).unwrap_or(99);
            let finished_ok = is_success_code(stt) || stt == vs::ST_SKIPPED;
            if !finished_ok {
                self.viol(
                    out,
                    "C02",
                    &format!("upstream-not-finished-ok-{}", when),
                    format!("{} offered while upstream {} is in state code {}", gv.jobs[j].id, uj.id, stt),
                );
                continue;
            }
            match uj.kind {
                Kind::Output => {
                    let disk = self.shared.disk.borrow();
                    if !uj.parts.iter().all(|p| disk.contains_key(p)) {
                        self.viol(
                            out,
                            "C02",
                            &format!("output-upstream-missing-{}", when),
                            format!("{} offered while Output upstream {} has no result on disk", gv.jobs[j].id, uj.id),
                        );
                    }
                }
                Kind::Ephemeral => {
                    if !out.ok.contains_key(u) {
                        self.viol(
                            out,
                            "C02",
                            &format!("ephemeral-upstream-not-executed-{}", when),
                            format!(
                                "{} offered while Ephemeral upstream {} was not executed in this evaluation (state code {})",
                                gv.jobs[j].id, uj.id, stt
                            ),
                        );
                    } else if out.cleanup_offered.contains(u) {
                        self.viol(
                            out,
                            "C02",
                            &format!("ephemeral-upstream-already-offered-for-cleanup-{}", when),
                            format!("{} offered after Ephemeral upstream {} was offered for cleanup", gv.jobs[j].id, uj.id),
                        );
                    }
                }
                Kind::Always => {
                    if !out.ok.contains_key(u) {
                        self.viol(
                            out,
                            "C02",
                            &format!("always-upstream-not-executed-{}", when),
                            format!("{} offered while Always upstream {} was not executed", gv.jobs[j].id, uj.id),
                        );
                    }
                }
            }
            // the engine can report the current output of the upstream
            let cur = eng.job_output(&uj.id);
            let expect = out.ok.get(u).cloned().or_else(|| self.h_in.get(&uj.id).cloned());
            match (&cur, &expect) {
                (Some(c), Some(e)) if c == e => {}
                (Some(_), None) => {}
                _ => {
                    if uj.kind != Kind::Ephemeral || out.ok.contains_key(u) {
                        self.viol(
                            out,
                            "C02",
                            &format!("upstream-output-not-reported-{}", when),
                            format!(
                                "{} offered; get_job_output({}) = {:?}, expected {:?}",
                                gv.jobs[j].id, uj.id, cur, expect
                            ),
                        );
                    }
                }
            }
            let _ = consumed;
        }
    }

    fn observe(&mut self, eng: &mut Eng, out: &mut EvalOut) {
        let gv = self.gv;
        self.check_transitions(out);
        let ready: BTreeSet<usize> = eng.ready().iter().filter_map(|id| gv.idx.get(id).copied()).collect();
        let running_q: BTreeSet<usize> = eng.running().iter().filter_map(|id| gv.idx.get(id).copied()).collect();
        let cleanup: BTreeSet<usize> = eng.cleanup().iter().filter_map(|id| gv.idx.get(id).copied()).collect();
        let failed_q: BTreeSet<usize> = eng.failed().iter().filter_map(|id| gv.idx.get(id).copied()).collect();
        let uf_q: BTreeSet<usize> = eng.upstream_failed().iter().filter_map(|id| gv.idx.get(id).copied()).collect();
        let running_sim: BTreeSet<usize> = self.running.iter().map(|r| r.job).collect();
        let snap = eng.snapshot();
        let state_of: BTreeMap<&str, vs::VState> = snap.jobs.iter().map(|x| (x.job_id.as_str(), x.state)).collect();

        // ---- coverage measure: joint engine states along every edge and every two-edge path
        {
            let code = |id: &str| -> u64 {
                state_of.get(id).map(|s| ((s.kind as u64) << 16) | ((s.code as u64) << 8) | s.vs as u64).unwrap_or(0xff_ffff)
            };
            let mut by_up: BTreeMap<&str, Vec<usize>> = BTreeMap::new();
            for (i, e) in snap.edges.iter().enumerate() {
                by_up.entry(e.upstream.as_str()).or_default().push(i);
            }
            for e1 in snap.edges.iter() {
                let f1 = hash2(hash2(code(&e1.upstream), code(&e1.downstream)), ((e1.required as u64) << 8) | e1.invalidated as u64);
                out.features.insert(hash2(1, f1));
                if let Some(nexts) = by_up.get(e1.downstream.as_str()) {
                    for i2 in nexts {
                        let e2 = &snap.edges[*i2];
                        let f2 = hash2(hash2(f1, code(&e2.downstream)), ((e2.required as u64) << 8) | e2.invalidated as u64);
                        out.features.insert(hash2(2, f2));
                    }
                }
            }
        }

        // ---- C17 report consistency
        if running_q != running_sim {
            self.viol(
                out,
                "C17",
                "running-set-mismatch",
                format!("query_jobs_running {:?} vs delivered events {:?}", running_q, running_sim),
            );
        }
        if !ready.is_disjoint(&running_q) {
            self.viol(out, "C17", "ready-and-running", "a job is both ready and running".into());
        }
        for j in ready.iter() {
            if out.started.contains(j) {
                self.viol(out, "C17", "ready-after-start", format!("{} is in the ready set after it was started", gv.jobs[*j].id));
            }
        }
        for c in cleanup.iter() {
            if gv.jobs[*c].kind != Kind::Ephemeral || !out.ok.contains_key(c) || out.cleanup_acked.contains(c) {
                self.viol(
                    out,
                    "C17",
                    "cleanup-set-inconsistent",
                    format!("{} offered for cleanup (kind {:?}, executed ok {}, acked {})",
                        gv.jobs[*c].id, gv.jobs[*c].kind, out.ok.contains_key(c), out.cleanup_acked.contains(c)),
                );
            }
        }
        let failed_sim: BTreeSet<usize> = out.failed.union(&out.contract_err).cloned().collect();
        if failed_q != failed_sim {
            self.viol(
                out,
                "C17",
                "failed-set-mismatch",
                format!("query_failed {:?} vs delivered failures {:?}", failed_q, failed_sim),
            );
        }
        if !failed_q.is_disjoint(&uf_q) {
            self.viol(out, "C17", "failed-and-upstream-failed", "a job is both failed and upstream-failed".into());
        }
        for j in uf_q.iter() {
            if out.started.contains(j) {
                self.viol(
                    out,
                    "C07",
                    "started-job-upstream-failed",
                    format!("{} was started and is reported upstream-failed", gv.jobs[*j].id),
                );
            }
        }
        if let Some(nr) = eng.next_ready() {
            if !gv.idx.get(&nr).map(|j| ready.contains(j)).unwrap_or(false) {
                self.viol(out, "C17", "next-ready-not-in-ready", format!("next_job_ready_to_run {} not in ready set", nr));
            }
        } else if !ready.is_empty() {
            self.viol(out, "C17", "next-ready-none", "next_job_ready_to_run None but ready set not empty".into());
        }
        let all_finished = gv.jobs.iter().all(|j| state_of.get(j.id.as_str()).map(|s| rank(s.code) == 4).unwrap_or(false));
        let fin = eng.is_finished().unwrap_or(false);
        if fin != all_finished {
            self.viol(
                out,
                "C17",
                "is-finished-inconsistent",
                format!("is_finished() = {} but all jobs finished = {}", fin, all_finished),
            );
        }
        for j in ready.iter() {
            let sc = state_of.get(gv.jobs[*j].id.as_str()).map(|s| s.code).unwrap_or(99);
            if sc != vs::ST_READY {
                self.viol(
                    out,
                    "C17",
                    "ready-set-holds-non-ready-job",
                    format!("{} is reported ready to run but its state code is {}", gv.jobs[*j].id, sc),
                );
            }
            if uf_q.contains(j) || failed_q.contains(j) {
                self.viol(
                    out,
                    "C17",
                    "ready-and-failed",
                    format!("{} is reported both as ready to run and as (upstream-)failed", gv.jobs[*j].id),
                );
            }
            // C02 holds for as long as the job is on offer, not only at the first offer
            for (u, _) in gv.jobs[*j].ups.iter() {
                let su = state_of.get(gv.jobs[*u].id.as_str()).map(|s| s.code).unwrap_or(99);
                if !(is_success_code(su) || su == vs::ST_SKIPPED) && self.ready_prev.contains(j) {
                    self.viol(
                        out,
                        "C02",
                        "upstream-not-finished-ok-while-offered",
                        format!("{} is still offered while upstream {} is in state code {}", gv.jobs[*j].id, gv.jobs[*u].id, su),
                    );
                }
            }
        }
        // ---- C05 progress
        if !fin && ready.is_empty() && running_q.is_empty() && running_sim.is_empty() {
            self.viol(out, "C05", "stall", "evaluation not finished, nothing ready, nothing running".into());
        }
        // ---- new offers
        for j in ready.iter() {
            if !self.ready_prev.contains(j) {
                if self.offered_ever.contains(j) {
                    self.viol(out, "C17", "offered-twice", format!("{} offered a second time", gv.jobs[*j].id));
                    self.viol(out, "C05", "offered-twice", format!("{} offered a second time", gv.jobs[*j].id));
                }
                self.offered_ever.insert(*j);
                out.events.push((self.action_idx, Ev::Offer(*j)));
                self.check_inputs(eng, out, *j, "at-offer");
                if out.blocked.contains(j) {
                    self.viol(
                        out,
                        "C07",
                        "blocked-job-offered",
                        format!("{} offered although it depends on a failed job", gv.jobs[*j].id),
                    );
                }
                if !self.live[*j] {
                    self.viol(out, "C04", "dead-ephemeral-offered", format!("{} can be needed by nobody but was offered", gv.jobs[*j].id));
                }
            }
        }
        // C07: a job that depends on a failed job must not be (or stay) on offer
        for j in ready.iter() {
            if out.blocked.contains(j) && self.ready_prev.contains(j) {
                self.viol(
                    out,
                    "C07",
                    "blocked-job-still-offered",
                    format!("{} ({:?}) is still offered although a job it depends on has failed", gv.jobs[*j].id, gv.jobs[*j].kind),
                );
            }
        }
        // a job that left the ready set without being started
        for j in self.ready_prev.iter() {
            if !ready.contains(j) && !out.started.contains(j) {
                // the only legitimate withdrawal: the job became upstream-failed (a failure reached
                // it through an already skipped job) - the statement does not forbid that
                let s = state_of.get(gv.jobs[*j].id.as_str()).map(|s| s.code).unwrap_or(99);
                if s != vs::ST_UPSTREAM_FAILURE {
                    self.viol(out, "C17", "offer-withdrawn", format!("{} left the ready set without being started (state code {})", gv.jobs[*j].id, s));
                } else {
                    probe(&mut out.probes, "offer_withdrawn_by_upstream_failure");
                }
            }
        }
        self.ready_prev = ready;
        // ---- cleanup offers (C13, C02)
        for c in cleanup.iter() {
            if !self.cleanup_prev.contains(c) {
                if out.cleanup_offered.contains(c) {
                    self.viol(out, "C13", "cleanup-offered-again", format!("{} offered for cleanup again", gv.jobs[*c].id));
                }
                out.cleanup_offered.insert(*c);
                out.events.push((self.action_idx, Ev::CleanupOffer(*c)));
                if gv.jobs[*c].kind != Kind::Ephemeral || !out.ok.contains_key(c) {
                    self.viol(
                        out,
                        "C13",
                        "cleanup-of-unexecuted",
                        format!("{} offered for cleanup but was not executed successfully", gv.jobs[*c].id),
                    );
                }
                for d in gv.jobs[*c].downs.iter() {
                    let s = state_of.get(gv.jobs[*d].id.as_str()).copied().unwrap_or(vs::VState { kind: 9, code: 99, vs: 0 });
                    if rank(s.code) != 4 {
                        self.viol(
                            out,
                            "C13",
                            "cleanup-before-downstream-finished",
                            format!("{} offered for cleanup while downstream {} is in state code {}", gv.jobs[*c].id, gv.jobs[*d].id, s.code),
                        );
                        if running_sim.contains(d) {
                            self.viol(
                                out,
                                "C02",
                                "cleanup-while-consumer-running",
                                format!("{} offered for cleanup while its consumer {} is running", gv.jobs[*c].id, gv.jobs[*d].id),
                            );
                        }
                    } else if matches!(s.code, vs::ST_FAILURE | vs::ST_UPSTREAM_FAILURE | vs::ST_ABORTED) {
                        self.viol(
                            out,
                            "C13",
                            "cleanup-despite-failed-downstream",
                            format!("{} offered for cleanup although downstream {} did not succeed (code {})", gv.jobs[*c].id, gv.jobs[*d].id, s.code),
                        );
                    }
                }
            }
        }
        for c in self.cleanup_prev.iter() {
            if !cleanup.contains(c) && !out.cleanup_acked.contains(c) {
                self.viol(out, "C13", "cleanup-offer-withdrawn", format!("{} left the cleanup set without acknowledgement", gv.jobs[*c].id));
            }
        }
        for c in cleanup.iter() {
            if out.cleanup_acked.contains(c) {
                self.viol(out, "C13", "cleanup-offered-after-ack", format!("{} offered for cleanup after it was acknowledged", gv.jobs[*c].id));
            }
        }
        self.cleanup_prev = cleanup;
    }

    fn do_misuse(&mut self, eng: &mut Eng, out: &mut EvalOut, m: &MisusePlan) {
        let gv = self.gv;
        let snap = eng.snapshot();
        let state_of: BTreeMap<&str, vs::VState> = snap.jobs.iter().map(|x| (x.job_id.as_str(), x.state)).collect();
        let ready: BTreeSet<String> = eng.ready().into_iter().collect();
        let cleanup: BTreeSet<String> = eng.cleanup().into_iter().collect();
        let eligible: Vec<usize> = (0..gv.jobs.len())
            .filter(|i| {
                let id = &gv.jobs[*i].id;
                let s = state_of.get(id.as_str()).map(|s| s.code).unwrap_or(99);
                match m.call {
                    0 => !ready.contains(id),
                    1 | 2 => s != vs::ST_RUNNING,
                    3 => !cleanup.contains(id),
                    _ => false,
                }
            })
            .collect();
        let target: Option<usize> = if m.call == 4 {
            None
        } else if eligible.is_empty() {
            return;
        } else {
            Some(eligible[(m.pick as usize) % eligible.len()])
        };
        // observable state before
        self.check_transitions(out);
        let before = (
            eng.snapshot(),
            eng.ready(),
            eng.running(),
            eng.cleanup(),
            eng.failed(),
            eng.upstream_failed(),
            (0..gv.jobs.len()).map(|i| eng.job_output(&gv.jobs[i].id)).collect::<Vec<_>>(),
            // the history the engine would hand out (obtainable only once the evaluation is over)
            if snap.start_status == 2 { Some(format!("{:?}", eng.new_history().map_err(|e| normalise(&format!("{:?}", e))))) } else { None },
        );
        let r = match (m.call, target) {
            (0, Some(j)) => eng.now_running(&gv.jobs[j].id),
            (1, Some(j)) => eng.success(&gv.jobs[j].id, "bogus=0000000000000000@0".to_string()),
            (2, Some(j)) => eng.failure(&gv.jobs[j].id),
            (3, Some(j)) => eng.cleanup_done(&gv.jobs[j].id),
            _ => eng.startup(),
        };
        out.misuse_done += 1;
        probe(
            &mut out.probes,
            match m.call {
                0 => "misuse_now_running",
                1 => "misuse_finished_success",
                2 => "misuse_finished_failure",
                3 => "misuse_cleanup_done",
                _ => "misuse_startup_twice",
            },
        );
        let callname = ["event_now_running", "event_job_finished_success", "event_job_finished_failure", "event_job_cleanup_done", "event_startup"]
            [(m.call as usize).min(4)];
        let resname = match &r {
            CallRes::Ok => "Ok".to_string(),
            CallRes::Api(_) => "APIError".to_string(),
            CallRes::Internal(s) => format!("InternalError({})", normalise(s)),
            CallRes::Contract => "EphemeralChangedOutput".to_string(),
            CallRes::Panic(s) => format!("panic({})", normalise(s)),
        };
        out.events.push((self.action_idx, Ev::Misuse { call: m.call, job: target, res: resname.clone() }));
        if !matches!(r, CallRes::Api(_)) {
            self.viol(
                out,
                "C20",
                "misuse-not-rejected",
                format!(
                    "illegal {} on a job in state code {} returned {}",
                    callname,
                    target.map(|j| state_of.get(gv.jobs[j].id.as_str()).map(|s| s.code).unwrap_or(99)).unwrap_or(0),
                    resname
                ),
            );
            if matches!(r, CallRes::Panic(_) | CallRes::Internal(_)) {
                self.fatal = true;
                if out.engine_error.is_none() {
                    out.engine_error = Some(format!("misuse {} -> {}", callname, resname));
                }
                return;
            }
        }
        let pending = vs::pending_transitions();
        let after = (
            eng.snapshot(),
            eng.ready(),
            eng.running(),
            eng.cleanup(),
            eng.failed(),
            eng.upstream_failed(),
            (0..gv.jobs.len()).map(|i| eng.job_output(&gv.jobs[i].id)).collect::<Vec<_>>(),
            if snap.start_status == 2 { Some(format!("{:?}", eng.new_history().map_err(|e| normalise(&format!("{:?}", e))))) } else { None },
        );
        if before != after || pending != 0 {
            let what = if before.0 != after.0 {
                "internal state"
            } else if pending != 0 {
                "state transitions happened"
            } else if before.7 != after.7 {
                "the history the engine hands out"
            } else {
                "query results"
            };
            self.viol(
                out,
                "C20",
                "misuse-had-side-effect",
                format!("illegal {} (-> {}) changed {}", callname, resname, what),
            );
            // keep the monitors in sync with whatever happened
            self.check_transitions(out);
        }
    }
}
