#![recursion_limit = "256"]
mod checks;
mod driver;
mod gen;
mod model;
mod oracle;
mod rng;
mod shrink;
mod world;
mod big;
mod witness;

use checks::*;
use model::*;
use serde_json::json;
use std::collections::{BTreeMap, BTreeSet};
use std::sync::atomic::{AtomicBool, AtomicU64, Ordering};
use std::time::Instant;

pub const ALL_PROPS: [&str; 20] = [
    "C01", "C02", "C03", "C04", "C05", "C06", "C07", "C08", "C09", "C10", "C11", "C12", "C13", "C14", "C15", "C16", "C17",
    "C18", "C19", "C20",
];

fn level_of(prop: &str) -> &'static str {
    match prop {
        "C08" | "C09" | "C10" => "fault_enumeration",
        _ => "exploration",
    }
}

#[derive(Clone, Debug, serde::Serialize, serde::Deserialize)]
pub struct ReplayFile {
    pub property: String,
    pub clause: String,
    pub message: String,
    pub round: usize,
    pub seed: u64,
    pub thorough: bool,
    pub scenario: Scenario,
}

#[derive(Clone, Debug, serde::Deserialize)]
pub struct KnownFinding {
    pub property: String,
    pub clause: String,
    #[serde(default)]
    pub msg_contains: Option<String>,
    #[serde(default)]
    pub witness: Option<String>,
    pub description: String,
    #[serde(default)]
    pub status: String,
}

#[derive(Clone, Debug, serde::Deserialize, Default)]
pub struct KnownFindingsFile {
    #[serde(default)]
    pub findings: Vec<KnownFinding>,
    #[serde(default)]
    pub fixed: Vec<String>,
}

fn load_known() -> KnownFindingsFile {
    let path = verif_dir().join("known_findings.json");
    match std::fs::read_to_string(&path) {
        Ok(s) => serde_json::from_str(&s).unwrap_or_else(|e| {
            eprintln!("harness error: cannot parse {}: {}", path.display(), e);
            std::process::exit(2);
        }),
        Err(_) => KnownFindingsFile::default(),
    }
}

pub fn load_known_pub() -> KnownFindingsFile {
    load_known()
}
pub fn verif_dir_pub() -> std::path::PathBuf {
    verif_dir()
}

fn verif_dir() -> std::path::PathBuf {
    std::env::var("VERIF_DIR").map(std::path::PathBuf::from).unwrap_or_else(|_| std::path::PathBuf::from("/verif"))
}

pub fn matches_known(k: &KnownFinding, prop: &str, vio: &driver::Violation, sc: &Scenario, round: usize) -> bool {
    if k.property != prop || k.clause != vio.clause {
        return false;
    }
    if let Some(m) = &k.msg_contains {
        if !vio.msg.contains(m.as_str()) {
            return false;
        }
    }
    if let Some(w) = &k.witness {
        if !shrink::witness_holds(w, sc, round, vio) {
            return false;
        }
    }
    true
}

struct Agg {
    scenarios: u64,
    rep: RunReport,
    inter: BTreeSet<u64>,
    shapes: BTreeSet<u64>,
    shapes_nontrivial: BTreeSet<u64>,
    hits: Vec<(u64, usize, driver::Violation)>, // (seed index, round, violation) for the checked property
    /// violations of other properties seen on the way that no known finding lists
    other_props: BTreeMap<&'static str, u64>,
    other_props_listed: BTreeMap<&'static str, u64>,
    samples: Vec<serde_json::Value>,
    /// coverage feature -> (scenarios showing it, lowest scenario index showing it)
    features: BTreeMap<u64, (u64, u64)>,
    /// scenarios (by index) that showed a state context first (within their generation)
    keep: BTreeMap<u64, Scenario>,
    /// the scenario of every index that produced a hit (needed to triage hits of later generations)
    hit_scenarios: BTreeMap<u64, Scenario>,
    generations: Vec<serde_json::Value>,
    /// order-independent digest over (scenario index, event-log digest) of the whole search
    batch_digest: u64,
    determinism_checked: u64,
    determinism_mismatch: u64,
}

/// corpus of hand-written / minimised scenarios (sorted by file name): every 5th case of a batch
/// is a seeded variant of one of them
/// number of hand-written motif scenarios at the front of the corpus; the rest are witnesses
static CORPUS_MOTIFS: std::sync::atomic::AtomicUsize = std::sync::atomic::AtomicUsize::new(0);

/// corpus/*.json: hand-written motifs; corpus/witnesses/*.json: minimised witnesses of seeded changes
/// (tools/regress_seeded.sh with REGRESS_KEEP). Every 5th case of a batch is a seeded variant of a
/// corpus scenario, alternating between the two groups.
pub fn load_corpus() -> Vec<Scenario> {
    let mut out = load_corpus_dir(&verif_dir().join("corpus"));
    CORPUS_MOTIFS.store(out.len(), std::sync::atomic::Ordering::Relaxed);
    out.extend(load_corpus_dir(&verif_dir().join("corpus").join("witnesses")));
    out
}

fn load_corpus_dir(dir: &std::path::Path) -> Vec<Scenario> {
    let mut files: Vec<std::path::PathBuf> = match std::fs::read_dir(dir) {
        Ok(rd) => rd.filter_map(|e| e.ok().map(|e| e.path())).filter(|p| p.extension().map(|x| x == "json").unwrap_or(false)).collect(),
        Err(_) => Vec::new(),
    };
    files.sort();
    let mut out = Vec::new();
    for f in files {
        let s = match std::fs::read_to_string(&f) {
            Ok(s) => s,
            Err(_) => continue,
        };
        let sc: Option<Scenario> = serde_json::from_str::<ReplayFile>(&s).map(|r| r.scenario).ok().or_else(|| serde_json::from_str::<Scenario>(&s).ok());
        match sc {
            Some(mut sc) => {
                // under the job-id naming the engine is not told WHICH files of an upstream a job consumes, so
                // every dependency consumes all of them (the generator draws nothing else there); a minimised
                // witness may carry a narrower subset over from the production naming - widen it, or a later
                // change of the subset would be a change nobody can notice
                if sc.cfg.names == Names::JobIds {
                    for r in sc.rounds.iter_mut() {
                        for e in r.edits.iter_mut() {
                            if let Edit::AddEdge { consumed, .. } = e {
                                consumed.clear();
                            }
                        }
                    }
                }
                out.push(sc)
            }
            None => {
                eprintln!("harness error: corpus file {} does not parse", f.display());
                std::process::exit(2);
            }
        }
    }
    out
}

pub fn scenario_for(corpus: &[Scenario], gp: &gen::GenParams, base_seed: u64, i: u64) -> Scenario {
    let seed = seed_for(base_seed, i);
    if !corpus.is_empty() && i % 5 == 4 {
        let na = CORPUS_MOTIFS.load(std::sync::atomic::Ordering::Relaxed).min(corpus.len());
        let nb = corpus.len() - na;
        let k = (i / 5) as usize;
        let idx = if nb == 0 || (na > 0 && k % 2 == 0) { (k / if nb == 0 { 1 } else { 2 }) % na.max(1) } else { na + (k / 2) % nb };
        gen::corpus_variant(&corpus[idx.min(corpus.len() - 1)], seed, gp)
    } else {
        gen::generate(seed, gp)
    }
}

fn seed_for(base: u64, i: u64) -> u64 {
    base.wrapping_mul(1u64 << 32).wrapping_add(i)
}

fn empty_agg() -> Agg {
    Agg {
        scenarios: 0,
        rep: RunReport::default(),
        inter: BTreeSet::new(),
        shapes: BTreeSet::new(),
        shapes_nontrivial: BTreeSet::new(),
        hits: Vec::new(),
        hit_scenarios: BTreeMap::new(),
        other_props: BTreeMap::new(),
        other_props_listed: BTreeMap::new(),
        features: BTreeMap::new(),
        keep: BTreeMap::new(),
        generations: Vec::new(),
        batch_digest: 0,
        samples: Vec::new(),
        determinism_checked: 0,
        determinism_mismatch: 0,
    }
}

fn merge_agg(total: &mut Agg, a: Agg) {
    total.scenarios += a.scenarios;
    total.inter.extend(a.inter);
    total.shapes.extend(a.shapes);
    total.shapes_nontrivial.extend(a.shapes_nontrivial);
    total.hits.extend(a.hits);
    total.hit_scenarios.extend(a.hit_scenarios);
    for (k, n) in a.other_props {
        *total.other_props.entry(k).or_insert(0) += n;
    }
    for (k, n) in a.other_props_listed {
        *total.other_props_listed.entry(k).or_insert(0) += n;
    }
    total.samples.extend(a.samples);
    for (f, (n, i)) in a.features {
        let e = total.features.entry(f).or_insert((0, i));
        e.0 += n;
        e.1 = e.1.min(i);
    }
    total.keep.extend(a.keep);
    total.batch_digest ^= a.batch_digest;
    total.determinism_checked += a.determinism_checked;
    total.determinism_mismatch += a.determinism_mismatch;
    add_report(&mut total.rep, a.rep);
}

/// One generation: scenarios `from..to` (global indices), produced by `source`, fanned over the threads.
/// `seen` = the coverage features of all earlier generations (read-only here).
#[allow(clippy::too_many_arguments)]
fn run_generation(
    opts: &RunOpts,
    known: &KnownFindingsFile,
    base_seed: u64,
    from: u64,
    to: u64,
    threads: usize,
    t0: Instant,
    wall_cap_s: f64,
    stop: &AtomicBool,
    seen: &BTreeMap<u64, (u64, u64)>,
    regenerable: bool,
    source: &(dyn Fn(u64) -> Scenario + Sync),
) -> Agg {
    // debugging aid: VERIF_REPORT_PROP=Cyy collects the violations of property Cyy seen under THIS profile
    let report_prop_s: String = std::env::var("VERIF_REPORT_PROP").unwrap_or_else(|_| opts.prop.clone());
    let report_prop: &str = report_prop_s.as_str();

    let next = AtomicU64::new(from);
    let mut aggs: Vec<Agg> = Vec::new();
    std::thread::scope(|s| {
        let mut handles = Vec::new();
        for _ in 0..threads {
            let next = &next;
            handles.push(
                std::thread::Builder::new()
                    .stack_size(64 << 20)
                    .spawn_scoped(s, move || {
                        let mut a = empty_agg();
                        loop {
                            if stop.load(Ordering::Relaxed) {
                                break;
                            }
                            let i = next.fetch_add(1, Ordering::Relaxed);
                            if i >= to {
                                break;
                            }
                            if i % 64 == 0 && t0.elapsed().as_secs_f64() > wall_cap_s {
                                stop.store(true, Ordering::Relaxed);
                                break;
                            }
                            let seed = seed_for(base_seed, i);
                            let sc = source(i);
                            let rep = run_scenario(&sc, opts);
                            a.scenarios += 1;
                            a.batch_digest ^= rng::hash2(i, rep.log_digest ^ rng::hash2(rep.violations.len() as u64, 17));
                            // determinism sample: re-execute 1% in-process and compare digests
                            if i % 100 == 7 {
                                let rep2 = run_scenario(&sc, opts);
                                a.determinism_checked += 1;
                                if rep2.log_digest != rep.log_digest || rep2.violations.len() != rep.violations.len() {
                                    a.determinism_mismatch += 1;
                                }
                            }
                            if i < 3 {
                                a.samples.push(json!({"seed": seed, "scenario": sc, "violations_any_property": rep.violations.iter().map(|(r, v)| format!("round {} {} {}", r, v.prop, v.clause)).collect::<Vec<_>>()}));
                            }
                            let mut hit = false;
                            for (r, vi) in rep.violations.iter() {
                                if vi.prop == report_prop {
                                    a.hits.push((i, *r, vi.clone()));
                                    hit = true;
                                } else if known.findings.iter().any(|k| matches_known(k, vi.prop, vi, &sc, *r)) {
                                    *a.other_props_listed.entry(vi.prop).or_insert(0) += 1;
                                } else {
                                    *a.other_props.entry(vi.prop).or_insert(0) += 1;
                                }
                            }
                            if hit && (!regenerable || a.hit_scenarios.len() < 4096) {
                                a.hit_scenarios.insert(i, sc.clone());
                            }
                            // coverage feedback: keep the scenario if it shows a state context that neither an
                            // earlier generation nor (so far) this worker has seen. (The globally first witness
                            // of a context is always the first one its own worker sees, so the selection made
                            // afterwards from the lowest index per context does not depend on thread timing.)
                            let mut fresh = false;
                            for f in rep.features.iter() {
                                if !seen.contains_key(f) && !a.features.contains_key(f) {
                                    fresh = true;
                                }
                                let e = a.features.entry(*f).or_insert((0, i));
                                e.0 += 1;
                                e.1 = e.1.min(i);
                            }
                            if fresh {
                                a.keep.insert(i, sc);
                            }
                            merge_report(&mut a, rep);
                        }
                        a
                    })
                    .unwrap(),
            );
        }
        for h in handles {
            aggs.push(h.join().unwrap());
        }
    });
    let mut total = empty_agg();
    for a in aggs {
        merge_agg(&mut total, a);
    }
    total
}

/// The search: generation 0 is purely random (generator + corpus variants); every later generation
/// mutates the scenarios of the generations before it that were the FIRST to show some joint engine
/// state (coverage feedback). Everything is a function of (seed, count): scenario `i` of generation g
/// depends only on the merged, index-ordered results of generations < g.
fn run_batch(prop: &str, thorough: bool, base_seed: u64, count: u64, wall_cap_s: f64, threads: usize) -> (Agg, bool) {
    let gp = gen::params_for(prop, thorough);
    let corpus = load_corpus();
    let known = load_known();
    let stop = AtomicBool::new(false);
    let t0 = Instant::now();
    let opts = RunOpts { prop: prop.to_string(), thorough };
    let feedback = std::env::var("VERIF_NO_FEEDBACK").is_err();
    // generation sizes: quick 1/2 random, then four times 1/8; thorough 1/4 random, then twelve times 1/16
    // (longer chains of mutants of mutants)
    let mut bounds: Vec<u64> = vec![0];
    if feedback && count >= 64 {
        if thorough {
            for k in 0..12 {
                bounds.push(count / 4 + k * (count / 16));
            }
        } else {
            for k in 0..4 {
                bounds.push(count / 2 + k * (count / 8));
            }
        }
    }
    bounds.push(count);
    let mut total = empty_agg();
    let mut pool: Vec<Scenario> = Vec::new();
    for g in 0..bounds.len() - 1 {
        let (from, to) = (bounds[g], bounds[g + 1]);
        let seen = total.features.clone();
        let agg = if g == 0 {
            let src = |i: u64| scenario_for(&corpus, &gp, base_seed, i);
            run_generation(&opts, &known, base_seed, from, to, threads, t0, wall_cap_s, &stop, &seen, true, &src)
        } else {
            let pool_ref = &pool;
            let gp_ref = &gp;
            let src = move |i: u64| {
                let seed = seed_for(base_seed, i);
                if pool_ref.is_empty() {
                    gen::generate(seed, gp_ref)
                } else {
                    let k = (rng::hash2(seed, 0xFEED) % pool_ref.len() as u64) as usize;
                    gen::mutate(&pool_ref[k], seed, gp_ref)
                }
            };
            run_generation(&opts, &known, base_seed, from, to, threads, t0, wall_cap_s, &stop, &seen, false, &src)
        };
        // new contexts of this generation and their first witnesses
        let mut fresh_ctx = 0u64;
        let mut witnesses: BTreeMap<u64, u64> = BTreeMap::new(); // scenario index -> rarity key (min count of its fresh contexts)
        for (f, (n, i)) in agg.features.iter() {
            if !seen.contains_key(f) {
                fresh_ctx += 1;
                let e = witnesses.entry(*i).or_insert(u64::MAX);
                *e = (*e).min(*n);
            }
        }
        let mut chosen: Vec<(u64, u64)> = witnesses.iter().map(|(i, n)| (*n, *i)).collect();
        chosen.sort();
        chosen.truncate(6000);
        let mut added = 0u64;
        for (_, i) in chosen.iter() {
            if let Some(sc) = agg.keep.get(i) {
                pool.push(sc.clone());
                added += 1;
            }
        }
        let gen_info = json!({"generation": g, "scenarios": agg.scenarios, "new_state_contexts": fresh_ctx, "scenarios_added_to_pool": added, "source": if g == 0 { "seeded generator + corpus variants" } else { "mutants of pool scenarios (first witnesses of a state context)" }});
        let mut agg = agg;
        agg.keep.clear();
        merge_agg(&mut total, agg);
        total.generations.push(gen_info);
        if stop.load(Ordering::Relaxed) {
            break;
        }
    }
    let capped = stop.load(Ordering::Relaxed);
    total.hits.sort_by(|x, y| (x.0, x.1, &x.2.clause).cmp(&(y.0, y.1, &y.2.clause)));
    total.samples.sort_by_key(|s| s["seed"].as_u64().unwrap_or(0));
    (total, capped)
}

fn add_report(t: &mut RunReport, r: RunReport) {
    t.evaluations += r.evaluations;
    t.engine_calls += r.engine_calls;
    t.actions += r.actions;
    t.sim_ticks += r.sim_ticks;
    for (k, n) in r.probes {
        *t.probes.entry(k).or_insert(0) += n;
    }
    for (k, n) in r.faults {
        *t.faults.entry(k).or_insert(0) += n;
    }
    for (k, n) in r.discarded {
        *t.discarded.entry(k).or_insert(0) += n;
    }
}

fn merge_report(a: &mut Agg, r: RunReport) {
    for d in r.interleaving_digests.iter() {
        a.inter.insert(*d);
    }
    for (d, nt) in r.shape_digests.iter() {
        a.shapes.insert(*d);
        if *nt {
            a.shapes_nontrivial.insert(*d);
        }
    }
    add_report(&mut a.rep, r);
}

fn tier_count(prop: &str, thorough: bool) -> (u64, f64) {
    // (scenarios, wall cap seconds)
    // (the later generations of the search run larger scenarios than the random first one; the counts
    // keep a quick run at about 20 M engine calls)
    let quick: u64 = match prop {
        "C09" => 36_000,
        "C10" => 56_000,
        "C14" => 140_000,
        "C07" | "C08" | "C12" | "C15" | "C20" => 230_000,
        _ => 440_000,
    };
    if thorough {
        (quick * 12, 1500.0)
    } else {
        (quick, 300.0)
    }
}

fn cmd_check(prop: &str, tier: &str) -> i32 {
    let thorough = tier == "thorough";
    let base_seed: u64 = std::env::var("VERIF_SEED").ok().and_then(|s| s.parse().ok()).unwrap_or(1);
    let threads: usize = std::env::var("VERIF_THREADS").ok().and_then(|s| s.parse().ok()).unwrap_or_else(|| {
        std::thread::available_parallelism().map(|n| n.get()).unwrap_or(4).min(16)
    });
    let t0 = Instant::now();
    println!("VERIF_SEED={} property={} tier={} threads={}", base_seed, prop, tier, threads);
    if prop == "C19" {
        return big::check_c19(thorough, base_seed, threads);
    }
    let (mut count, cap) = tier_count(prop, thorough);
    if let Some(c) = std::env::var("VERIF_COUNT").ok().and_then(|s| s.parse().ok()) {
        count = c;
    }
    let (agg, capped) = run_batch(prop, thorough, base_seed, count, cap, threads);
    let wall = t0.elapsed().as_secs_f64();
    if agg.determinism_mismatch > 0 {
        eprintln!("harness error: {} of {} re-executed scenarios were not deterministic", agg.determinism_mismatch, agg.determinism_checked);
        return 2;
    }
    // triage hits: group by signature, first (lowest seed) witness each
    let known = load_known();
    let gp = gen::params_for(prop, thorough);
    let opts = RunOpts { prop: prop.to_string(), thorough };
    let mut by_sig: BTreeMap<String, (u64, usize, driver::Violation, u64)> = BTreeMap::new();
    for (i, r, vi) in agg.hits.iter() {
        let sig = format!("{}|{}", vi.clause, if prop == "C06" || prop == "C20" || prop == "C10" { vi.msg.clone() } else { String::new() });
        let e = by_sig.entry(sig).or_insert((*i, *r, vi.clone(), 0));
        e.3 += 1;
    }
    let mut known_lines: Vec<String> = Vec::new();
    let mut known_hits: BTreeMap<String, u64> = BTreeMap::new();
    let mut unknown: Vec<(u64, usize, driver::Violation)> = Vec::new();
    // every hit is matched individually (a known finding must not mask a different witness of the same clause)
    let corpus = load_corpus();
    for (i, r, vi) in agg.hits.iter() {
        let sc = agg.hit_scenarios.get(i).cloned().unwrap_or_else(|| scenario_for(&corpus, &gp, base_seed, *i));
        match known.findings.iter().find(|k| matches_known(k, prop, vi, &sc, *r)) {
            Some(k) => {
                let line = format!("KNOWN-FINDING: property={} {} [{}]", prop, k.description, k.clause);
                *known_hits.entry(line.clone()).or_insert(0) += 1;
                if !known_lines.contains(&line) {
                    known_lines.push(line);
                }
            }
            None => {
                if unknown.len() < 4 && !unknown.iter().any(|(_, _, u)| u.clause == vi.clause && u.msg == vi.msg) {
                    unknown.push((*i, *r, vi.clone()));
                } else if unknown.len() < 4 && !unknown.iter().any(|(_, _, u)| u.clause == vi.clause) {
                    unknown.push((*i, *r, vi.clone()));
                }
            }
        }
    }
    for l in known_lines.iter() {
        println!("{} (hit {} times)", l, known_hits[l]);
    }
    let mut exit = 0;
    let mut replay_paths: Vec<String> = Vec::new();
    for (i, r, vi) in unknown.iter() {
        let seed = seed_for(base_seed, *i);
        let sc = agg.hit_scenarios.get(i).cloned().unwrap_or_else(|| scenario_for(&corpus, &gp, base_seed, *i));
        println!("violation candidate: seed={} round={} {} {} :: {}", seed, r, vi.prop, vi.clause, vi.msg);
        let (min_sc, min_round, min_vi) = shrink::shrink(&sc, &opts, vi, &known);
        let rf = ReplayFile {
            property: prop.to_string(),
            clause: min_vi.clause.clone(),
            message: min_vi.msg.clone(),
            round: min_round,
            seed,
            thorough,
            scenario: min_sc,
        };
        let dir = verif_dir().join("replays");
        let _ = std::fs::create_dir_all(&dir);
        let path = dir.join(format!("{}-{}-{}.json", prop, seed, vi.clause));
        if let Err(e) = std::fs::write(&path, serde_json::to_string_pretty(&rf).unwrap()) {
            eprintln!("harness error: cannot write replay file: {}", e);
            return 2;
        }
        // verify in a fresh process
        let exe = std::env::current_exe().unwrap();
        let st = std::process::Command::new(exe).arg("replay").arg(&path).arg("--quiet").status();
        match st {
            Ok(s) if s.code() == Some(1) => {
                println!("VIOLATION property={} replay={}", prop, path.display());
                println!("  {} :: {}", min_vi.clause, min_vi.msg);
                replay_paths.push(path.display().to_string());
                exit = 1;
            }
            other => {
                eprintln!("harness error: replay of {} did not reproduce the violation ({:?})", path.display(), other);
                return 2;
            }
        }
    }
    write_evidence(prop, tier, base_seed, &agg, wall, capped, count, by_sig.len() as u64, &known_lines, &replay_paths, threads);
    println!(
        "{} {}: scenarios={} evaluations={} calls={} wall={:.1}s violations(unlisted)={} known-finding-signatures={} other-property-violations-seen(unlisted)={:?} (listed as known findings)={:?}",
        prop, tier, agg.scenarios, agg.rep.evaluations, agg.rep.engine_calls, wall, replay_paths.len(), known_lines.len(), agg.other_props, agg.other_props_listed
    );
    if !agg.hits.is_empty() {
        // sensitivity figures (used by tools/regress_seeded.sh): how many scenarios hit, and how early
        let idx: BTreeSet<u64> = agg.hits.iter().map(|(i, _, _)| *i).collect();
        println!("hits: scenarios-with-a-hit={} first-index={} of {}", idx.len(), idx.iter().next().unwrap(), agg.scenarios);
    }
    exit
}

#[allow(clippy::too_many_arguments)]
fn write_evidence(
    prop: &str,
    tier: &str,
    seed: u64,
    agg: &Agg,
    wall: f64,
    capped: bool,
    planned: u64,
    signatures: u64,
    known_lines: &[String],
    replays: &[String],
    threads: usize,
) {
    let per_hour = |x: u64| -> u64 { if wall > 0.0 { (x as f64 * 3600.0 / wall) as u64 } else { 0 } };
    // the python-bridge stage runs before the search (see ./check); its summary is part of the evidence
    let bridge: serde_json::Value = std::env::var("VERIF_BRIDGE_SUMMARY")
        .ok()
        .and_then(|p| std::fs::read_to_string(p).ok())
        .and_then(|t| serde_json::from_str(&t).ok())
        .unwrap_or(serde_json::Value::Null);
    let bridge_div = bridge.get("summary").and_then(|s| s.get("divergences")).and_then(|d| d.as_u64()).unwrap_or(0);
    let mut real = vec![
        "src/engine.rs (PPGEvaluator, compiled from /repo working tree with cfg tyberiusprime_pypipegraph2_verif)".to_string(),
        "src/lib.rs error and strategy types".to_string(),
        "src/verif_seam.rs hooks".to_string(),
    ];
    let mut stub = vec![
        "python runner (simulated driver/scheduler)".to_string(),
        "job execution (world model)".to_string(),
        "history persistence".to_string(),
    ];
    if bridge.is_null() {
        stub.push("file system (world model)".to_string());
        stub.push("history_comparisons.py (re-implemented comparison)".to_string());
        stub.push("PyO3 class PPG2Evaluator / StrategyForPython (not exercised)".to_string());
    } else {
        real.push("python-bridge stage only: src/lib.rs PyO3 class PPG2Evaluator and StrategyForPython (cdylib built from the working tree, driven from python3), python/pypipegraph2/history_comparisons.py, real files in a scratch directory for output_already_present".to_string());
        stub.push("in the search itself: file system (world model), history_comparisons.py (re-implemented comparison, cross-checked), PyO3 class not exercised".to_string());
    }
    let ev = json!({
        "property_id": prop,
        "tier": tier,
        "seed": seed,
        "level": level_of(prop),
        "wall_s": wall,
        "violations": replays.len() + if bridge_div > 0 { 1 } else { 0 },
        "coverage": {
            "evaluations": agg.rep.evaluations,
            "distinct_nontrivial": agg.shapes_nontrivial.len(),
            "rule": "one case = one simulated evaluation (engine run to completion/abort under a seeded schedule and fault plan) inside a seeded chain of evaluations; distinct = distinct digest of (graph shape, which jobs have history, final disposition vector); non-trivial = at least one job skipped AND at least one executed AND (a fault fired OR >= 2 jobs were in flight at once)",
            "samples": agg.samples,
            "scenarios": agg.scenarios,
            "scenarios_planned": planned,
            "wall_cap_hit": capped,
            "engine_calls": agg.rep.engine_calls,
            "driver_actions": agg.rep.actions,
            "simulated_ticks": agg.rep.sim_ticks,
            "scenarios_per_hour": per_hour(agg.scenarios),
            "evaluations_per_hour": per_hour(agg.rep.evaluations),
            "seeds_per_hour": per_hour(agg.scenarios),
            "distinct_interleavings": agg.inter.len(),
            "distinct_state_contexts": agg.features.len(),
            "search_generations": agg.generations,
            "search_digest": format!("{:016x}", agg.batch_digest),
            "state_contexts_seen_in_at_most_3_scenarios": agg.features.values().filter(|(n, _)| *n <= 3).count(),
            "state_context_rule": "one context = the joint engine state (kind, state, validation status of both jobs, required/invalidated flags) along one dependency edge, or along a path of two edges, observed after some engine call",
            "distinct_shapes": agg.shapes.len(),
            "faults_fired": agg.rep.faults,
            "probes": agg.rep.probes,
            "discarded": agg.rep.discarded,
            "violation_signatures_seen": signatures,
            "known_findings_hit": known_lines,
            "replay_files": replays,
            "violations_of_other_properties_seen": agg.other_props,
            "violations_of_other_properties_seen_listed_as_known_findings": agg.other_props_listed,
            "determinism_sample": {"re_executed": agg.determinism_checked, "mismatches": agg.determinism_mismatch},
            "threads": threads,
            "python_bridge": bridge,
            "python_bridge_rule": "the first scenarios of this profile (the ones generation 0 of the search runs), every evaluation they perform (twin runs, resume triples, abort sweeps included), replayed call by call through the real PyO3 class from python3 with seeded hashing; results, query sets, history and reported outputs must equal the direct run",
            "components": { "real": real, "stub": stub }
        },
        "assumptions": [
            "the world model (deterministic content functions keyed by output part) stands in for real jobs",
            "the comparison stub mirrors python/pypipegraph2/history_comparisons.py",
            "seeded sampling, not exhaustive: a clean batch is evidence, not proof"
        ]
    });
    let dir = verif_dir().join("evidence");
    let _ = std::fs::create_dir_all(&dir);
    let path = dir.join(format!("{}.json", prop));
    if let Err(e) = std::fs::write(&path, serde_json::to_string_pretty(&ev).unwrap()) {
        eprintln!("harness error: cannot write evidence: {}", e);
        std::process::exit(2);
    }
}

/// print every violation signature (all properties) with counts and the first seed index
fn cmd_survey(prop: &str, count: u64, thorough: bool) -> i32 {
    let base_seed: u64 = std::env::var("VERIF_SEED").ok().and_then(|s| s.parse().ok()).unwrap_or(1);
    let gp = gen::params_for(prop, thorough);
    let opts = RunOpts { prop: prop.to_string(), thorough };
    let corpus = load_corpus();
    let corpus = &corpus;
    let known = load_known();
    let known = &known;
    let next = AtomicU64::new(0);
    let mut all: BTreeMap<String, (u64, u64, String)> = BTreeMap::new();
    std::thread::scope(|s| {
        let mut hs = Vec::new();
        for _ in 0..16 {
            let gp = gp.clone();
            let next = &next;
            let opts = &opts;
            hs.push(s.spawn(move || {
                let mut m: BTreeMap<String, (u64, u64, String)> = BTreeMap::new();
                loop {
                    let i = next.fetch_add(1, Ordering::Relaxed);
                    if i >= count {
                        break;
                    }
                    let sc = scenario_for(corpus, &gp, base_seed, i);
                    let rep = run_scenario(&sc, opts);
                    for (r, vi) in rep.violations.iter() {
                        let is_known = known.findings.iter().any(|k| matches_known(k, vi.prop, vi, &sc, *r));
                        let sig = format!("{}{} {} {}", if is_known { "(known) " } else { "" }, vi.prop, vi.clause, if vi.prop == "C06" || vi.prop == "C10" || vi.prop == "C20" { vi.msg.clone() } else { String::new() });
                        let e = m.entry(sig).or_insert((0, i, vi.msg.clone()));
                        e.0 += 1;
                        if i < e.1 {
                            e.1 = i;
                            e.2 = vi.msg.clone();
                        }
                    }
                }
                m
            }));
        }
        for h in hs {
            for (k, v) in h.join().unwrap() {
                let e = all.entry(k).or_insert((0, u64::MAX, String::new()));
                e.0 += v.0;
                if v.1 < e.1 {
                    e.1 = v.1;
                    e.2 = v.2;
                }
            }
        }
    });
    for (k, (n, i, msg)) in all {
        println!("{:6} first_i={:<7} seed={} {} :: {}", n, i, seed_for(base_seed, i), k, msg);
    }
    0
}

fn cmd_replay(path: &str, quiet: bool) -> i32 {
    let s = match std::fs::read_to_string(path) {
        Ok(s) => s,
        Err(e) => {
            eprintln!("harness error: cannot read {}: {}", path, e);
            return 2;
        }
    };
    if let Ok(v) = serde_json::from_str::<serde_json::Value>(&s) {
        if v.get("c19case").is_some() {
            return big::replay_c19(&v, quiet);
        }
    }
    let rf: ReplayFile = match serde_json::from_str(&s) {
        Ok(r) => r,
        Err(e) => {
            eprintln!("harness error: cannot parse {}: {}", path, e);
            return 2;
        }
    };
    let opts = RunOpts { prop: rf.property.clone(), thorough: rf.thorough };
    let rep = run_scenario(&rf.scenario, &opts);
    let mut hit = false;
    for (r, vi) in rep.violations.iter() {
        if !quiet {
            println!("round {} {} {} :: {}", r, vi.prop, vi.clause, vi.msg);
        }
        if vi.prop == rf.property && vi.clause == rf.clause && vi.msg == rf.message && *r == rf.round {
            hit = true;
        }
    }
    if hit {
        if !quiet {
            println!("VIOLATION property={} replay={}", rf.property, path);
        }
        1
    } else {
        if !quiet {
            println!("not reproduced: {} {} :: {}", rf.property, rf.clause, rf.message);
        }
        0
    }
}

fn cmd_dump(prop: &str, seed: u64, thorough: bool) -> i32 {
    let gp = gen::params_for(prop, thorough);
    let sc = scenario_for(&load_corpus(), &gp, seed >> 32, seed & 0xffff_ffff);
    println!("{}", serde_json::to_string_pretty(&sc).unwrap());
    let rep = run_scenario(&sc, &RunOpts { prop: prop.to_string(), thorough });
    for (r, vi) in rep.violations.iter() {
        println!("round {} {} {} :: {}", r, vi.prop, vi.clause, vi.msg);
    }
    0
}

/// shrink one seed for one clause and write the replay file (debugging aid)
fn cmd_shrink(prop: &str, seed: u64, clause: &str, thorough: bool) -> i32 {
    let gp = gen::params_for(prop, thorough);
    let sc = scenario_for(&load_corpus(), &gp, seed >> 32, seed & 0xffff_ffff);
    let opts = RunOpts { prop: prop.to_string(), thorough };
    let rep = run_scenario(&sc, &opts);
    let vprop = std::env::var("VPROP").unwrap_or_else(|_| prop.to_string());
    let target = match rep.violations.iter().find(|(_, v)| v.prop == vprop && v.clause == clause) {
        Some((_, v)) => v.clone(),
        None => {
            eprintln!("no such violation at this seed");
            return 2;
        }
    };
    let (min_sc, round, vi) = shrink::shrink(&sc, &opts, &target, &KnownFindingsFile::default());
    let rf = ReplayFile { property: prop.to_string(), clause: vi.clause.clone(), message: vi.msg.clone(), round, seed, thorough, scenario: min_sc };
    let path = format!("/tmp/shrunk-{}-{}-{}.json", prop, seed, clause);
    std::fs::write(&path, serde_json::to_string_pretty(&rf).unwrap()).unwrap();
    println!("{}", path);
    0
}

fn cmd_shrinkfile(path: &str, prop: &str, clause: &str) -> i32 {
    let s = std::fs::read_to_string(path).expect("read");
    let sc: Scenario = match serde_json::from_str::<ReplayFile>(&s) {
        Ok(rf) => rf.scenario,
        Err(_) => serde_json::from_str(&s).expect("parse scenario"),
    };
    let opts = RunOpts { prop: prop.to_string(), thorough: false };
    let rep = run_scenario(&sc, &opts);
    for (r, v) in rep.violations.iter() {
        println!("round {} {} {} :: {}", r, v.prop, v.clause, v.msg);
    }
    let target = match rep.violations.iter().find(|(_, v)| v.prop == prop && v.clause == clause) {
        Some((_, v)) => v.clone(),
        None => {
            eprintln!("no such violation");
            return 2;
        }
    };
    let (min_sc, round, vi) = shrink::shrink(&sc, &opts, &target, &KnownFindingsFile::default());
    let rf = ReplayFile { property: prop.to_string(), clause: vi.clause.clone(), message: vi.msg.clone(), round, seed: 0, thorough: false, scenario: min_sc };
    let out = format!("{}.min.json", path);
    std::fs::write(&out, serde_json::to_string_pretty(&rf).unwrap()).unwrap();
    println!("{}", out);
    0
}

/// random cases for the comparison stub, to be cross-checked against the real python code
fn cmd_cmpcases(n: u64, seed: u64) -> i32 {
    let mut r = rng::Rng::new(seed);
    let cfg = Config { cmp: Cmp::Semantic, names: Names::Parts, noise: true };
    let names = ["a", "b", "c", "d"];
    for _ in 0..n {
        let pick = |r: &mut rng::Rng| -> Vec<String> {
            let mut v: Vec<String> = names.iter().filter(|_| r.chance(1, 2)).map(|s| s.to_string()).collect();
            if v.is_empty() {
                v.push("a".to_string());
            }
            v
        };
        let up_parts = pick(&mut r);
        let down_inputs: Option<Vec<String>> = if r.chance(1, 4) { None } else { Some(pick(&mut r)) };
        let rec = |r: &mut rng::Rng, parts: &[String]| -> String {
            let vals: Vec<(String, u64)> = parts.iter().map(|p| (p.clone(), r.below(3) as u64)).collect();
            world::format_record(&vals, r.below(3) as u64)
        };
        // the "now" record always holds the upstream's current outputs; the "last" one may stem from
        // a differently named job
        let last_parts = if r.chance(1, 2) { up_parts.clone() } else { pick(&mut r) };
        let last = rec(&mut r, &last_parts);
        let now = rec(&mut r, &up_parts);
        let expect = match world::altered(&cfg, &up_parts, down_inputs.as_deref(), &last, &now) {
            Ok(b) => json!(b),
            Err(_) => json!("raise"),
        };
        println!("{}", json!({"up_parts": up_parts, "down_inputs": down_inputs, "last": last, "now": now, "expect": expect}));
    }
    0
}

fn cmd_trace(path: &str) -> i32 {
    let s = std::fs::read_to_string(path).expect("read");
    let sc: Scenario = match serde_json::from_str::<ReplayFile>(&s) {
        Ok(rf) => rf.scenario,
        Err(_) => serde_json::from_str(&s).expect("parse scenario"),
    };
    shrink::trace(&sc);
    0
}

/// digest of a block of seeds, for the cross-process determinism self-test
fn cmd_digest(prop: &str, from: u64, count: u64, threads: usize) -> i32 {
    let gp = gen::params_for(prop, false);
    let opts = RunOpts { prop: prop.to_string(), thorough: false };
    let corpus = load_corpus();
    let corpus = &corpus;
    let next = AtomicU64::new(0);
    let mut all: Vec<(u64, u64, usize)> = Vec::new();
    std::thread::scope(|s| {
        let mut hs = Vec::new();
        for _ in 0..threads {
            let gp = gp.clone();
            let next = &next;
            let opts = &opts;
            hs.push(s.spawn(move || {
                let mut v = Vec::new();
                loop {
                    let i = next.fetch_add(1, Ordering::Relaxed);
                    if i >= count {
                        break;
                    }
                    let seed = from + i;
                    let sc = scenario_for(corpus, &gp, seed >> 32, seed & 0xffff_ffff);
                    let rep = run_scenario(&sc, opts);
                    v.push((seed, rep.log_digest, rep.violations.len()));
                }
                v
            }));
        }
        for h in hs {
            all.extend(h.join().unwrap());
        }
    });
    all.sort();
    for (s, d, n) in all {
        println!("{} {:016x} {}", s, d, n);
    }
    0
}

/// bridge traces: the first scenarios of a profile (the same ones generation 0 of `check` runs), every
/// evaluation they perform (twin runs, resume triples and abort sweeps included) as one JSON line with
/// every engine call, its result and the query results after it; consumed by tools/pybridge_replay.py
fn cmd_bridgetrace(prop: &str, from: u64, scenarios: u64, base_seed: u64, max_evals: usize) -> i32 {
    use std::io::Write;
    let gp = gen::params_for(prop, false);
    let opts = RunOpts { prop: prop.to_string(), thorough: false };
    let corpus = load_corpus();
    let stdout = std::io::stdout();
    let mut w = std::io::BufWriter::new(stdout.lock());
    let mut evals = 0usize;
    let mut per_scenario_cap = 40usize;
    if prop == "C09" || prop == "C10" {
        per_scenario_cap = 60;
    }
    for i in from..from + scenarios {
        if evals >= max_evals {
            break;
        }
        let sc = scenario_for(&corpus, &gp, base_seed, i);
        driver::bridge_trace_enable(true);
        let _ = run_scenario(&sc, &opts);
        driver::bridge_trace_enable(false);
        let lines = driver::bridge_trace_take();
        for (k, l) in lines.iter().take(per_scenario_cap).enumerate() {
            let _ = writeln!(w, "{{\"scenario\":{},\"seed\":{},\"eval\":{},\"t\":{}}}", i, sc.seed, k, l);
            evals += 1;
        }
    }
    0
}

fn main() {
    std::panic::set_hook(Box::new(|_| {}));
    let args: Vec<String> = std::env::args().collect();
    let code = match args.get(1).map(|s| s.as_str()) {
        Some("check") if args.len() >= 4 => {
            let prop = args[2].as_str();
            if !ALL_PROPS.contains(&prop) {
                eprintln!("unknown property {}", prop);
                2
            } else {
                cmd_check(prop, args[3].as_str())
            }
        }
        Some("replay") if args.len() >= 3 => cmd_replay(&args[2], args.iter().any(|a| a == "--quiet")),
        Some("dump") if args.len() >= 4 => cmd_dump(&args[2], args[3].parse().unwrap_or(0), args.iter().any(|a| a == "--thorough")),
        Some("trace") if args.len() >= 3 => cmd_trace(&args[2]),
        Some("cmpcases") if args.len() >= 4 => cmd_cmpcases(args[2].parse().unwrap_or(1000), args[3].parse().unwrap_or(1)),
        Some("shrink") if args.len() >= 5 => cmd_shrink(&args[2], args[3].parse().unwrap_or(0), &args[4], args.iter().any(|a| a == "--thorough")),
        Some("searchdigest") if args.len() >= 5 => {
            // the whole search (all generations) of a property, as one digest: must not depend on the thread count
            let (agg, _) = run_batch(&args[2], false, 1, args[3].parse().unwrap_or(1000), 1e9, args[4].parse().unwrap_or(1));
            println!("{:016x} scenarios={} contexts={} hits={} generations={}", agg.batch_digest, agg.scenarios, agg.features.len(), agg.hits.len(), serde_json::to_string(&agg.generations).unwrap());
            0
        }
        Some("survey") if args.len() >= 4 => cmd_survey(&args[2], args[3].parse().unwrap_or(1000), args.iter().any(|a| a == "--thorough")),
        Some("digest") if args.len() >= 6 => cmd_digest(&args[2], args[3].parse().unwrap(), args[4].parse().unwrap(), args[5].parse().unwrap()),
        Some("bridgetrace") if args.len() >= 7 => cmd_bridgetrace(&args[2], args[3].parse().unwrap(), args[4].parse().unwrap(), args[5].parse().unwrap(), args[6].parse().unwrap()),
        Some("c19case") => big::cmd_case(&args[2..]),
        Some("family") if args.len() >= 4 => big::cmd_family_scenario(&args[2..]),
        Some("shrinkfile") if args.len() >= 5 => cmd_shrinkfile(&args[2], &args[3], &args[4]),
        _ => {
            eprintln!("usage: ppg2sim check <Cxx> <quick|thorough> | replay <file> | dump <Cxx> <seed> | trace <file> | digest <Cxx> <from> <count> <threads>");
            2
        }
    };
    std::process::exit(code);
}
