//! End-of-evaluation oracles and the small executable reference model (DESIGN §4.0).

use crate::driver::*;
use crate::model::*;
use crate::world::*;
use std::collections::{BTreeMap, BTreeSet};

fn v(prop: &'static str, clause: &str, msg: String) -> Violation {
    Violation { prop, clause: clause.to_string(), msg }
}

/// What j's records say it consumed from upstream u, as a record string usable with `altered`.
/// Ok(None) = no record; Err(()) = ambiguous (two candidate records disagree).
pub fn recorded_input(
    cfg: &Config,
    gv: &GraphView,
    h: &BTreeMap<String, String>,
    u: usize,
    j: usize,
    consumed: &[String],
) -> Result<Option<String>, ()> {
    let key = format!("{}!!!{}", gv.jobs[u].id, gv.jobs[j].id);
    if let Some(r) = h.get(&key) {
        return Ok(Some(r.clone()));
    }
    if cfg.cmp == Cmp::Exact || cfg.names == Names::JobIds {
        return Ok(None);
    }
    // consumed-parts convention with a semantic comparison: the upstream may have been
    // renamed (multi-output job gained/lost a part). Find the consumed parts in whichever
    // `x!!!j` record holds them.
    let suffix = format!("!!!{}", gv.jobs[j].id);
    let mut found: BTreeMap<String, BTreeSet<u64>> = BTreeMap::new();
    for (k, val) in h.iter() {
        if k.ends_with(&suffix) && k.len() > suffix.len() {
            if let Some(m) = parse_record(val) {
                for q in consumed {
                    if let Some((hash, _)) = m.get(q) {
                        found.entry(q.clone()).or_default().insert(*hash);
                    }
                }
            }
        }
    }
    let mut parts: Vec<(String, u64)> = Vec::new();
    for q in consumed {
        match found.get(q) {
            None => return Ok(None),
            Some(s) if s.len() == 1 => parts.push((q.clone(), *s.iter().next().unwrap())),
            Some(_) => return Err(()),
        }
    }
    // a synthetic record holding exactly the consumed parts; the comparison only looks at those
    // but it indexes `last[ip]` for every consumed ip produced by u - all present here.
    Ok(Some(format_record(&parts, 0)))
}

pub struct RefOut {
    pub valid: Vec<bool>,
    pub exec: Vec<bool>,
    pub live: Vec<bool>,
    pub ambiguous: bool,
    /// predicted value of every part after the evaluation
    pub pred: BTreeMap<String, u64>,
}

/// The reference pass: failure-free, schedule-free.
pub fn reference(cfg: &Config, defs: &[Def], gv: &GraphView, h: &BTreeMap<String, String>, disk: &BTreeMap<String, u64>) -> RefOut {
    let n = gv.jobs.len();
    let live = gv.live();
    let mut valid = vec![false; n];
    let mut ambiguous = false;
    let mut pred: BTreeMap<String, u64> = BTreeMap::new();
    let mut cur_rec: Vec<String> = vec![String::new(); n];
    for j in gv.topo() {
        let job = &gv.jobs[j];
        let mut ok = job.kind != Kind::Always;
        if ok {
            ok = h.contains_key(&job.id) && h.get(&format!("{}!!!", job.id)) == Some(&gv.names(cfg, j));
        }
        if ok && job.kind == Kind::Output {
            ok = job.parts.iter().all(|p| disk.contains_key(p));
        }
        if ok {
            for (u, consumed) in job.ups.iter() {
                match recorded_input(cfg, gv, h, *u, j, consumed) {
                    Err(()) => {
                        ambiguous = true;
                        ok = false;
                    }
                    Ok(None) => ok = false,
                    Ok(Some(rec)) => match altered(cfg, &gv.jobs[*u].parts, Some(&job.consumed_names), &rec, &cur_rec[*u]) {
                        Ok(false) => {}
                        Ok(true) => ok = false,
                        Err(_) => {
                            ambiguous = true;
                            ok = false;
                        }
                    },
                }
                if !ok {
                    break;
                }
            }
        }
        valid[j] = ok;
        // predicted current record of j
        let mut recorded_parts: Option<BTreeMap<String, (u64, u64)>> = None;
        if ok {
            recorded_parts = h.get(&job.id).and_then(|r| parse_record(r));
        }
        let mut inputs = Vec::new();
        for (u, consumed) in job.ups.iter() {
            for p in consumed {
                inputs.push((gv.jobs[*u].def, p.clone(), *pred.get(p).unwrap_or(&0)));
            }
        }
        let mut vals = Vec::new();
        for p in job.parts.iter() {
            let val = match recorded_parts.as_ref().and_then(|m| m.get(p)) {
                Some((hash, _)) => *hash,
                None => content(defs, job, p, &inputs),
            };
            pred.insert(p.clone(), val);
            vals.push((p.clone(), val));
        }
        cur_rec[j] = if ok { h.get(&job.id).cloned().unwrap_or_default() } else { format_record(&vals, 0) };
    }
    let mut exec = vec![false; n];
    for &j in gv.topo().iter().rev() {
        let job = &gv.jobs[j];
        exec[j] = match job.kind {
            Kind::Always => true,
            Kind::Output => !valid[j],
            Kind::Ephemeral => live[j] && (!valid[j] || job.downs.iter().any(|d| exec[*d])),
        };
    }
    RefOut { valid, exec, live, ambiguous, pred }
}

/// The literal "up to date" definition (C03) for job j, evaluated on the ACTUAL run: own record and
/// input list unchanged, every direct upstream's current output cmp-equal to what j's records say it
/// consumed. None = cannot be decided (ambiguous records, or an upstream has no current output).
pub fn inputs_unchanged(cfg: &Config, out: &EvalOut, j: usize) -> Option<bool> {
    let gv = &out.gv;
    let job = &gv.jobs[j];
    let h_in = &out.h_in;
    if !h_in.contains_key(&job.id) {
        return Some(false);
    }
    if h_in.get(&format!("{}!!!", job.id)) != Some(&gv.names(cfg, j)) {
        return Some(false);
    }
    for (u, consumed) in job.ups.iter() {
        let c = match out.disp[*u] {
            Disp::ExecOk => out.ok.get(u).cloned(),
            Disp::Skipped => h_in.get(&gv.jobs[*u].id).cloned(),
            _ => None,
        }?;
        match recorded_input(cfg, gv, h_in, *u, j, consumed) {
            Err(()) => return None,
            Ok(None) => return Some(false),
            Ok(Some(rec)) => match altered(cfg, &gv.jobs[*u].parts, Some(&job.consumed_names), &rec, &c) {
                Ok(false) => {}
                Ok(true) => return Some(false),
                Err(_) => return None,
            },
        }
    }
    Some(true)
}

pub struct OracleCtx<'a> {
    pub cfg: &'a Config,
    pub defs: &'a [Def],
    /// some earlier or the current evaluation injected a contract-violating Ephemeral:
    /// job outputs are no longer a function of the graph
    pub nondeterministic_outputs: bool,
    /// ids of jobs whose last execution attempt (in an earlier evaluation of the chain) failed or
    /// was killed by an abort, with no successful execution since
    pub tainted: Option<&'a BTreeSet<String>>,
    /// what the simulator itself saw in the earlier evaluations of the chain (independent of any record)
    pub truth: Option<&'a Truth>,
}

/// Ground truth kept by the chain runner across evaluations.
#[derive(Default, Clone, Debug)]
pub struct Truth {
    /// job id -> (part -> value) read by its last successful execution
    pub consumed: BTreeMap<String, BTreeMap<String, u64>>,
    /// part -> value written by the last successful execution of its producer
    pub produced: BTreeMap<String, u64>,
}

/// all end-of-evaluation oracles; returns violations and bumps probes
pub fn check_eval(ctx: &OracleCtx, out: &EvalOut, plan: &EvalPlan, probes: &mut Probes) -> Vec<Violation> {
    let mut vio = Vec::new();
    if out.engine_error.is_some() {
        return vio;
    }
    let gv = &out.gv;
    let n = gv.jobs.len();
    let cfg = ctx.cfg;
    let live = gv.live();
    let h_in = &out.h_in;

    // ------------------------------------------------------------------ C01
    if out.clean() && !ctx.nondeterministic_outputs {
        let clean = clean_build(ctx.defs, gv);
        for j in gv.jobs.iter().filter(|j| j.kind == Kind::Output) {
            for p in j.parts.iter() {
                let have = out.disk_after.get(p);
                let want = clean.get(p);
                if have != want {
                    vio.push(v(
                        "C01",
                        if have.is_none() { "output-missing" } else { "output-differs-from-clean-build" },
                        format!("{} part {}: on disk {:?}, clean build {:?}", j.id, p, have, want),
                    ));
                }
            }
        }
        probe(probes, "c01_clean_evaluations_checked");
    }

    // ------------------------------------------------------------------ C03
    // current output of a job in the actual run
    let cur = |u: usize| -> Option<String> {
        match out.disp[u] {
            Disp::ExecOk => out.ok.get(&u).cloned(),
            Disp::Skipped => h_in.get(&gv.jobs[u].id).cloned(),
            _ => None,
        }
    };
    for j in 0..n {
        if out.disp[j] != Disp::Skipped || !live[j] {
            continue;
        }
        let job = &gv.jobs[j];
        probe(probes, "c03_skipped_jobs_checked");
        if job.kind == Kind::Always {
            vio.push(v("C03", "always-skipped", format!("Always job {} was skipped", job.id)));
            continue;
        }
        if ctx.tainted.map(|t| t.contains(&job.id)).unwrap_or(false) {
            vio.push(v(
                "C03",
                "skipped-after-failed-attempt",
                format!("{} ({:?}) skipped although its last execution attempt failed or was killed and it has not succeeded since", job.id, job.kind),
            ));
            continue;
        }
        if !h_in.contains_key(&job.id) {
            vio.push(v("C03", "skipped-without-own-record", format!("{} ({:?}) skipped but has no record of an earlier execution", job.id, job.kind)));
            continue;
        }
        if h_in.get(&format!("{}!!!", job.id)) != Some(&gv.names(cfg, j)) {
            vio.push(v("C03", "skipped-with-changed-input-names", format!("{} skipped although its input names changed", job.id)));
            continue;
        }
        if job.kind == Kind::Output && !job.parts.iter().all(|p| out.disk_after.contains_key(p)) {
            vio.push(v("C03", "skipped-output-missing", format!("{} skipped but its result does not exist", job.id)));
            continue;
        }
        for (u, consumed) in job.ups.iter() {
            let c = match cur(*u) {
                Some(c) => c,
                None => continue, // upstream failed/aborted: C07's business
            };
            match recorded_input(cfg, gv, h_in, *u, j, consumed) {
                Err(()) => probe(probes, "ambiguous_record_exempted"),
                Ok(None) => vio.push(v(
                    "C03",
                    "skipped-without-edge-record",
                    format!("{} skipped but has no record of what it consumed from {}", job.id, gv.jobs[*u].id),
                )),
                Ok(Some(rec)) => match altered(cfg, &gv.jobs[*u].parts, Some(&job.consumed_names), &rec, &c) {
                    Ok(false) => {}
                    Ok(true) => vio.push(v(
                        "C03",
                        "skipped-while-input-altered",
                        format!(
                            "{} skipped although upstream {} ({:?}, {:?}) now has an output that differs from what it consumed",
                            job.id, gv.jobs[*u].id, gv.jobs[*u].kind, out.disp[*u]
                        ),
                    )),
                    Err(_) => probe(probes, "ambiguous_record_exempted"),
                },
            }
        }
    }

    // C03, ground truth: whatever the records say, a skipped job's last successful execution must
    // have read exactly the values its direct upstreams currently have (catches records that were
    // corrupted in an earlier evaluation and now agree with the current outputs by accident)
    if let Some(truth) = ctx.truth {
        for j in 0..n {
            if out.disp[j] != Disp::Skipped || !live[j] {
                continue;
            }
            let job = &gv.jobs[j];
            let tc = match truth.consumed.get(&job.id) {
                Some(tc) => tc,
                None => continue,
            };
            'ups: for (u, consumed) in job.ups.iter() {
                for p in consumed {
                    let now = match out.disp[*u] {
                        Disp::ExecOk => out.produced_vals.get(p),
                        Disp::Skipped => truth.produced.get(p),
                        _ => None,
                    };
                    if let (Some(a), Some(b)) = (tc.get(p), now) {
                        probe(probes, "c03_ground_truth_inputs_compared");
                        if a != b {
                            vio.push(v(
                                "C03",
                                "skipped-while-consumed-input-differs",
                                format!(
                                    "{} skipped although its last successful execution read another value of {} than upstream {} ({:?}) has now",
                                    job.id, p, gv.jobs[*u].id, out.disp[*u]
                                ),
                            ));
                            break 'ups;
                        }
                    }
                }
            }
        }
    }

    // ------------------------------------------------------------------ C04
    for j in out.started.iter() {
        if !live[*j] {
            vio.push(v("C04", "dead-ephemeral-executed", format!("{} can be needed by nobody but was executed", gv.jobs[*j].id)));
        }
    }
    if !ctx.nondeterministic_outputs {
        let r = reference(cfg, ctx.defs, gv, h_in, &out.disk_before);
        if r.ambiguous {
            probe(probes, "c04_ambiguous_reference_exempted");
        } else {
            let exec: BTreeSet<usize> = (0..n).filter(|j| r.exec[*j]).collect();
            if out.clean() && out.missing_input_fail.is_empty() {
                probe(probes, "c04_exact_comparisons");
                for j in exec.difference(&out.started) {
                    vio.push(v(
                        "C04",
                        "necessary-job-not-executed",
                        format!("{} ({:?}, valid={}) should have been executed but was not", gv.jobs[*j].id, gv.jobs[*j].kind, r.valid[*j]),
                    ));
                }
            }
            for j in out.started.difference(&exec) {
                vio.push(v(
                    "C04",
                    "unnecessary-job-executed",
                    format!("{} ({:?}, valid={}) was executed although it is up to date and nobody needs it", gv.jobs[*j].id, gv.jobs[*j].kind, r.valid[*j]),
                ));
            }
        }
    }

    // ------------------------------------------------------------------ C07 (end)
    if !out.aborted {
        for b in out.blocked.iter() {
            if live[*b] && !out.upstream_failed_q.contains(b) && !out.started.contains(b) {
                vio.push(v(
                    "C07",
                    "blocked-job-not-reported-upstream-failed",
                    format!("{} ({:?}) depends on a failed job but ended {:?}", gv.jobs[*b].id, gv.jobs[*b].kind, out.disp[*b]),
                ));
            }
        }
    }
    for j in out.upstream_failed_q.iter() {
        let has_cause = gv.jobs[*j].ups.iter().any(|(u, _)| {
            out.failed.contains(u) || out.contract_err.contains(u) || out.upstream_failed_q.contains(u)
        });
        if !has_cause {
            vio.push(v(
                "C07",
                "upstream-failed-without-cause",
                format!("{} reported upstream-failed but no direct upstream failed or is upstream-failed", gv.jobs[*j].id),
            ));
        }
    }

    // ------------------------------------------------------------------ C08 / C11 / C18 need h_out
    if let Some(h_out) = &out.h_out {
        // C08
        let bad: BTreeSet<usize> = out
            .failed
            .iter()
            .chain(out.contract_err.iter())
            .chain(out.running_at_abort.iter())
            .cloned()
            .collect();
        for f in bad.iter() {
            let job = &gv.jobs[*f];
            probe(probes, "c08_failed_jobs_checked");
            if h_out.contains_key(&job.id) {
                vio.push(v("C08", "failed-job-has-output-record", format!("{} failed/was killed but has an output record", job.id)));
            }
            if h_out.contains_key(&format!("{}!!!", job.id)) {
                vio.push(v("C08", "failed-job-has-input-list-record", format!("{} failed/was killed but has an input-list record", job.id)));
            }
            let suffix = format!("!!!{}", job.id);
            let keys: BTreeSet<&String> = h_in
                .keys()
                .chain(h_out.keys())
                .filter(|k| k.ends_with(&suffix) && k.len() > suffix.len())
                .collect();
            for k in keys {
                let up_id = &k[..k.len() - suffix.len()];
                // only current edges and records of absent jobs are constrained
                let is_current_edge = gv.idx.get(up_id).map(|u| job.ups.iter().any(|(x, _)| x == u)).unwrap_or(false);
                let absent = !gv.idx.contains_key(up_id);
                let superseded = absent && is_superseded(gv, up_id);
                if (is_current_edge || (absent && !superseded)) && h_in.get(k) != h_out.get(k) {
                    vio.push(v(
                        "C08",
                        "failed-job-edge-record-changed",
                        format!("record {} of failed job changed: {:?} -> {:?}", k, h_in.get(k).is_some(), h_out.get(k).is_some()),
                    ));
                }
            }
        }

        // C11
        for (j, rec) in out.ok.iter() {
            let job = &gv.jobs[*j];
            probe(probes, "c11_executed_jobs_checked");
            if h_out.get(&job.id) != Some(rec) {
                vio.push(v("C11", "output-record-wrong", format!("{}: recorded {:?}, reported {:?}", job.id, h_out.get(&job.id), rec)));
            }
            let names = gv.names(cfg, *j);
            if h_out.get(&format!("{}!!!", job.id)) != Some(&names) {
                vio.push(v("C11", "input-list-record-wrong", format!("{}: recorded {:?}, current {:?}", job.id, h_out.get(&format!("{}!!!", job.id)), names)));
            }
            for (u, _) in job.ups.iter() {
                // what it consumed = the upstream's current output at the moment it started
                let c = out.consumed_at_start.get(&(*j, *u)).cloned().or_else(|| cur(*u));
                if let Some(c) = c {
                    let k = format!("{}!!!{}", gv.jobs[*u].id, job.id);
                    if h_out.get(&k) != Some(&c) {
                        vio.push(v(
                            "C11",
                            "edge-record-wrong",
                            format!("{}: recorded {:?}, upstream's output was {:?} (upstream ended {:?})", k, h_out.get(&k), c, out.disp[*u]),
                        ));
                    }
                }
            }
        }
        for j in 0..n {
            if out.disp[j] != Disp::Skipped || !live[j] {
                continue;
            }
            let job = &gv.jobs[j];
            // "validly skipped": only jobs C03 accepts; a job C03 rejects is reported there
            if !h_in.contains_key(&job.id) {
                continue;
            }
            let k_names = format!("{}!!!", job.id);
            if h_out.get(&job.id) != h_in.get(&job.id) || h_out.get(&k_names) != h_in.get(&k_names) {
                vio.push(v("C11", "skipped-job-own-record-changed", format!("{} was skipped but its own records changed", job.id)));
            }
            for (u, _) in job.ups.iter() {
                if let Some(c) = cur(*u) {
                    let k = format!("{}!!!{}", gv.jobs[*u].id, job.id);
                    match h_out.get(&k) {
                        None => vio.push(v("C11", "skipped-job-edge-record-missing", format!("{} missing after {} was skipped", k, job.id))),
                        Some(r) => match altered(cfg, &gv.jobs[*u].parts, Some(&job.consumed_names), r, &c) {
                            Ok(false) => {}
                            Ok(true) => vio.push(v(
                                "C11",
                                "skipped-job-edge-record-differs",
                                format!("{} differs (under the configured comparison) from the upstream's current output", k),
                            )),
                            Err(_) => probe(probes, "ambiguous_record_exempted"),
                        },
                    }
                }
            }
        }

        // C18
        check_c18(gv, h_in, h_out, &mut vio, probes);
    }

    // ------------------------------------------------------------------ C16 / C06: was a contract error justified?
    for e in out.contract_err.iter() {
        // the error is only legitimate for an Ephemeral whose inputs are unchanged (judged from the
        // records and the actual outputs of this run - not from what the engine thought)
        if inputs_unchanged(cfg, out, *e) == Some(false) {
            vio.push(v(
                "C16",
                "contract-error-although-inputs-changed",
                format!("EphemeralChangedOutput raised for {} although its inputs had changed since its recorded execution", gv.jobs[*e].id),
            ));
            vio.push(v(
                "C06",
                "unjustified-contract-error",
                "EphemeralChangedOutput for an Ephemeral whose inputs had changed".to_string(),
            ));
        }
    }

    // ------------------------------------------------------------------ C13 (end)
    if !out.aborted {
        for (e, _) in out.ok.iter() {
            let job = &gv.jobs[*e];
            if job.kind != Kind::Ephemeral {
                continue;
            }
            let all_fine = job.downs.iter().all(|d| matches!(out.disp[*d], Disp::ExecOk | Disp::Skipped));
            if all_fine && !out.cleanup_offered.contains(e) {
                vio.push(v(
                    "C13",
                    "cleanup-forgotten",
                    format!("{} was executed, all its downstreams succeeded or were skipped, but it was never offered for cleanup", job.id),
                ));
            }
            if out.cleanup_offered.contains(e) {
                probe(probes, "c13_cleanups_checked");
            }
        }
    }
    let _ = plan;
    vio
}

/// an absent job id is superseded if one of its parts is produced by a present job
pub fn is_superseded(gv: &GraphView, absent_id: &str) -> bool {
    absent_id.split(ID_SEP).any(|p| gv.part_owner.contains_key(p))
}

fn check_c18(gv: &GraphView, h_in: &BTreeMap<String, String>, h_out: &BTreeMap<String, String>, vio: &mut Vec<Violation>, probes: &mut Probes) {
    let live = gv.live();
    let is_dead = |id: &str| gv.idx.get(id).map(|i| !live[*i]).unwrap_or(false);
    for (k, val) in h_in.iter() {
        match k.split_once("!!!") {
            None | Some((_, "")) => {
                let x = match k.split_once("!!!") {
                    None => k.as_str(),
                    Some((a, _)) => a,
                };
                if gv.idx.contains_key(x) {
                    continue; // present job: C08 / C11
                }
                if is_superseded(gv, x) {
                    probe(probes, "c18_superseded_records_seen");
                    if h_out.contains_key(k) {
                        vio.push(v(
                            "C18",
                            "superseded-record-kept",
                            format!("record {} of an absent job whose output is now produced by another job was kept", k),
                        ));
                    }
                } else {
                    probe(probes, "c18_absent_job_records_seen");
                    if h_out.get(k) != Some(val) {
                        vio.push(v(
                            "C18",
                            "absent-job-record-not-kept",
                            format!("record {} of an absent job: {:?}", k, if h_out.contains_key(k) { "changed" } else { "dropped" }),
                        ));
                    }
                }
            }
            Some((a, b)) => {
                let (pa, pb) = (gv.idx.get(a), gv.idx.get(b));
                match (pa, pb) {
                    (Some(ia), Some(ib)) => {
                        let edge = gv.jobs[*ib].ups.iter().any(|(u, _)| u == ia);
                        if !edge {
                            probe(probes, "c18_removed_dependency_records_seen");
                            if h_out.contains_key(k) {
                                vio.push(v(
                                    "C18",
                                    "removed-dependency-record-kept",
                                    format!("record {} kept although the two present jobs no longer depend on each other", k),
                                ));
                            }
                        }
                    }
                    _ => {
                        let sup_a = pa.is_none() && is_superseded(gv, a);
                        let sup_b = pb.is_none() && is_superseded(gv, b);
                        // A record up!!!down says what DOWN last consumed; it vouches for none of up's files.
                        // While down is absent (and not itself superseded) it is kept whatever became of up - a
                        // renamed upstream included: it is what the returning job is judged against. With a
                        // superseded downstream, or a superseded upstream below a PRESENT downstream (kept until
                        // the downstream is recorded again, fixes 33f8618 / 806cfb3), both outcomes are accepted.
                        if sup_b || (sup_a && pb.is_some()) {
                            continue;
                        }
                        if sup_a {
                            probe(probes, "c18_absent_consumer_below_renamed_upstream");
                        }
                        probe(probes, "c18_absent_edge_records_seen");
                        if h_out.get(k) != Some(val) {
                            vio.push(v(
                                "C18",
                                "absent-job-edge-record-not-kept",
                                format!("record {} (an end is absent from the graph): {}", k, if h_out.contains_key(k) { "changed" } else { "dropped" }),
                            ));
                        }
                    }
                }
            }
        }
    }
    for k in h_out.keys() {
        if h_in.contains_key(k) {
            continue;
        }
        let okk = match k.split_once("!!!") {
            None => gv.idx.contains_key(k.as_str()),
            Some((a, "")) => gv.idx.contains_key(a),
            Some((a, b)) => match (gv.idx.get(a), gv.idx.get(b)) {
                (Some(ia), Some(ib)) => gv.jobs[*ib].ups.iter().any(|(u, _)| u == ia),
                _ => false,
            },
        };
        if !okk {
            vio.push(v("C18", "record-from-nowhere", format!("record {} is neither inherited nor describes the current graph", k)));
        }
    }
    let _ = is_dead;
}
