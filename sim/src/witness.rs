//! Structural witness classes referenced by /verif/known_findings.json: a listed finding
//! only matches violations whose witness has the structure described there, so a different
//! violation of the same clause is still reported.

use crate::driver::*;
use crate::model::*;
use crate::world::*;

pub fn holds(name: &str, _sc: &Scenario, _pre: &World, out: &EvalOut, _vio: &Violation) -> bool {
    match name {
        // the renamed-upstream lookup (try_finding_renamed_multi_output_job) has to choose
        // between records stored under at least two different old names of the same upstream
        "renamed-lookup-several-old-names" => {
            let gv = &out.gv;
            for (j, job) in gv.jobs.iter().enumerate() {
                for (u, _) in job.ups.iter() {
                    let up = &gv.jobs[*u];
                    if out.h_in.contains_key(&format!("{}!!!{}", up.id, job.id)) {
                        continue;
                    }
                    let suffix = format!("!!!{}", job.id);
                    let mut candidates = 0;
                    for k in out.h_in.keys() {
                        if k.ends_with(&suffix) && k.len() > suffix.len() {
                            let x = &k[..k.len() - suffix.len()];
                            if x.split(ID_SEP).any(|p| up.parts.iter().any(|q| q == p)) {
                                candidates += 1;
                            }
                        }
                    }
                    if candidates >= 2 {
                        return true;
                    }
                }
                let _ = j;
            }
            false
        }
        // Two (or more) upstream jobs were MERGED into one multi-output job: the job named in the
        // violation consumes, from one upstream, outputs whose records are spread over several old names
        // (`a!!!j` holds a, `b!!!j` holds b, the upstream is now a:::b) - no single old record holds
        // everything it consumes, so whichever the renamed-upstream lookup picks, the comparison misses a
        // consumed output and answers "altered". (Where ONE old record does hold everything - the case
        // repaired by 2bd089b - this class does not hold and the violation is reported.)
        "consumed-outputs-spread-over-several-old-names" => {
            let gv = &out.gv;
            let named = _vio.msg.split(" (").next().unwrap_or("");
            let j = match gv.idx.get(named) {
                Some(j) => *j,
                None => return false,
            };
            // directly: the named job is such a consumer; indirectly: the named job is an Ephemeral that was
            // run for (an Ephemeral that was run for ...) such a consumer
            fn direct(out: &EvalOut, j: usize) -> bool {
                let gv = &out.gv;
                let job = &gv.jobs[j];
                for (u, consumed) in job.ups.iter() {
                    let up = &gv.jobs[*u];
                    if out.h_in.contains_key(&format!("{}!!!{}", up.id, job.id)) {
                        continue;
                    }
                    let suffix = format!("!!!{}", job.id);
                    let mut candidates: Vec<Vec<&str>> = Vec::new();
                    for k in out.h_in.keys() {
                        if k.ends_with(&suffix) && k.len() > suffix.len() {
                            let x = &k[..k.len() - suffix.len()];
                            let parts: Vec<&str> = x.split(ID_SEP).collect();
                            if parts.iter().any(|p| up.parts.iter().any(|q| q == p)) {
                                candidates.push(parts);
                            }
                        }
                    }
                    if candidates.len() >= 2 && !candidates.iter().any(|c| consumed.iter().all(|p| c.contains(&p.as_str()))) {
                        return true;
                    }
                }
                false
            }
            fn holds_for(out: &EvalOut, j: usize, depth: usize) -> bool {
                if direct(out, j) {
                    return true;
                }
                let job = &out.gv.jobs[j];
                // (the consumer itself need not have been started: the Ephemeral it asked for may have failed)
                depth < 40 && job.kind == Kind::Ephemeral && job.downs.iter().any(|d| holds_for(out, *d, depth + 1))
            }
            holds_for(out, j, 0)
        }
        _ => false,
    }
}
