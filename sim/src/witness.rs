//! Structural witness classes referenced by /verif/known_findings.json: a listed finding
//! only matches violations whose witness has the structure described there, so a different
//! violation of the same clause is still reported.

use crate::driver::*;
use crate::model::*;
use crate::world::*;

pub fn holds(name: &str, _sc: &Scenario, _pre: &World, out: &EvalOut, _vio: &Violation) -> bool {
    match name {
        // the renamed-upstream lookup (try_finding_renamed_multi_output_job) has to choose
        // between records stored under at least two different old names of the same upstream
        "renamed-lookup-several-old-names" => {
            let gv = &out.gv;
            for (j, job) in gv.jobs.iter().enumerate() {
                for (u, _) in job.ups.iter() {
                    let up = &gv.jobs[*u];
                    if out.h_in.contains_key(&format!("{}!!!{}", up.id, job.id)) {
                        continue;
                    }
                    let suffix = format!("!!!{}", job.id);
                    let mut candidates = 0;
                    for k in out.h_in.keys() {
                        if k.ends_with(&suffix) && k.len() > suffix.len() {
                            let x = &k[..k.len() - suffix.len()];
                            if x.split(ID_SEP).any(|p| up.parts.iter().any(|q| q == p)) {
                                candidates += 1;
                            }
                        }
                    }
                    if candidates >= 2 {
                        return true;
                    }
                }
                let _ = j;
            }
            false
        }
        _ => false,
    }
}
