//! Structural witness classes referenced by /verif/known_findings.json.

use crate::driver::*;
use crate::model::*;
use crate::world::*;

pub fn holds(name: &str, _sc: &Scenario, _pre: &World, _out: &EvalOut, _vio: &Violation) -> bool {
    match name {
        _ => false,
    }
}
