//! The only source of randomness in the simulator: a SplitMix64 stream.
//! Every draw of a run derives from one seed; sub-streams are forked by label so that
//! adding a draw in one component does not shift the draws of another.

#[derive(Clone, Debug)]
pub struct Rng {
    s: u64,
}

pub fn mix(mut z: u64) -> u64 {
    z = z.wrapping_add(0x9E37_79B9_7F4A_7C15);
    z = (z ^ (z >> 30)).wrapping_mul(0xBF58_476D_1CE4_E5B9);
    z = (z ^ (z >> 27)).wrapping_mul(0x94D0_49BB_1331_11EB);
    z ^ (z >> 31)
}

/// FNV-1a style string hash folded through `mix` (stable across processes).
pub fn hash_str(s: &str) -> u64 {
    let mut h: u64 = 0xcbf2_9ce4_8422_2325;
    for b in s.as_bytes() {
        h ^= *b as u64;
        h = h.wrapping_mul(0x0000_0100_0000_01B3);
    }
    mix(h)
}

pub fn hash2(a: u64, b: u64) -> u64 {
    mix(a ^ mix(b.wrapping_add(0x1234_5678_9ABC_DEF1)))
}

impl Rng {
    pub fn new(seed: u64) -> Self {
        Rng { s: mix(seed ^ 0xD1B5_4A32_D192_ED03) }
    }
    pub fn fork(&self, label: &str) -> Rng {
        Rng::new(hash2(self.s, hash_str(label)))
    }
    pub fn fork_n(&self, label: &str, n: u64) -> Rng {
        Rng::new(hash2(hash2(self.s, hash_str(label)), n))
    }
    pub fn next_u64(&mut self) -> u64 {
        self.s = self.s.wrapping_add(0x9E37_79B9_7F4A_7C15);
        let mut z = self.s;
        z = (z ^ (z >> 30)).wrapping_mul(0xBF58_476D_1CE4_E5B9);
        z = (z ^ (z >> 27)).wrapping_mul(0x94D0_49BB_1331_11EB);
        z ^ (z >> 31)
    }
    /// uniform in 0..n (n > 0)
    pub fn below(&mut self, n: usize) -> usize {
        debug_assert!(n > 0);
        ((self.next_u64() >> 11) % (n as u64)) as usize
    }
    /// inclusive range
    pub fn range(&mut self, lo: usize, hi: usize) -> usize {
        lo + self.below(hi - lo + 1)
    }
    /// true with probability num/den
    pub fn chance(&mut self, num: usize, den: usize) -> bool {
        self.below(den) < num
    }
    pub fn pick<'a, T>(&mut self, v: &'a [T]) -> &'a T {
        &v[self.below(v.len())]
    }
    pub fn shuffle<T>(&mut self, v: &mut [T]) {
        for i in (1..v.len()).rev() {
            let j = self.below(i + 1);
            v.swap(i, j);
        }
    }
    /// weighted pick: returns index
    pub fn weighted(&mut self, w: &[usize]) -> usize {
        let total: usize = w.iter().sum();
        let mut x = self.below(total.max(1));
        for (i, wi) in w.iter().enumerate() {
            if x < *wi {
                return i;
            }
            x -= wi;
        }
        w.len() - 1
    }
}
