//! Scenario = explicit data. The PRNG only *produces* a scenario; executing one is a pure
//! function of this value (plus the engine code under test), which is what makes replay
//! exact and shrinking structural.

use serde::{Deserialize, Serialize};
use std::collections::{BTreeMap, BTreeSet};

#[derive(Serialize, Deserialize, Clone, Copy, Debug, PartialEq, Eq, PartialOrd, Ord, Hash)]
pub enum Kind {
    Always,
    Output,
    Ephemeral,
}

#[derive(Serialize, Deserialize, Clone, Copy, Debug, PartialEq, Eq)]
pub enum Cmp {
    /// string inequality (StrategyForTesting)
    Exact,
    /// compare hashes of the consumed parts, ignore the noise component
    /// (stub of python/pypipegraph2/history_comparisons.py)
    Semantic,
}

#[derive(Serialize, Deserialize, Clone, Copy, Debug, PartialEq, Eq)]
pub enum Names {
    /// sorted upstream job ids (StrategyForTesting)
    JobIds,
    /// sorted consumed output (part) names (Runner.get_job_inputs_str)
    Parts,
}

#[derive(Serialize, Deserialize, Clone, Debug, PartialEq)]
pub struct Config {
    pub cmp: Cmp,
    pub names: Names,
    /// output records carry a noise component (mtime stand-in) = simulated clock at finish
    pub noise: bool,
}

/// Definition of a job. Behaviour is keyed by part and never changes within a scenario.
#[derive(Serialize, Deserialize, Clone, Debug, PartialEq)]
pub struct Def {
    /// universe of part names this job may produce (1..=3)
    pub universe: Vec<String>,
    pub kind: Kind,
    /// per universe part: ignores all its inputs
    pub constant: Vec<bool>,
    /// per universe part: indices of upstream defs whose parts it ignores
    pub ignores: Vec<Vec<usize>>,
}

#[derive(Serialize, Deserialize, Clone, Debug, PartialEq)]
pub enum Edit {
    /// (re-)add a job with the given current parts (indices into universe)
    AddJob { def: usize },
    RemoveJob { def: usize },
    /// down depends on up (up < down), consuming the given universe indices of up
    /// (effective = consumed ∩ current parts; if empty: all current parts)
    AddEdge { down: usize, up: usize, consumed: Vec<u8> },
    RemoveEdge { down: usize, up: usize },
    /// bump the external input of an Always job (function body / parameter / file changed)
    BumpExt { def: usize },
    /// take the last change of the external input back (parameter changed and changed back)
    RevertExt { def: usize },
    /// delete the materialised parts of an Output job from disk (None = all parts)
    DeleteOutput { def: usize, part: Option<u8> },
    /// multi-output job gains/loses parts: id changes, edges kept
    SetParts { def: usize, parts: Vec<u8> },
    SetKind { def: usize, kind: Kind },
}

#[derive(Serialize, Deserialize, Clone, Copy, Debug, PartialEq, Eq)]
pub enum Policy {
    /// any enabled action, uniformly
    Uniform,
    /// the test driver: start one, finish it, ack cleanups, repeat
    Sequential,
    /// start everything that is ready before finishing anything
    Eager,
    /// finish the most recently started job first
    Lifo,
    /// like Uniform, but no cleanup is acknowledged until the engine reports finished
    LateAcks,
    /// discrete-event replica of Runner._executing_thread with `workers` threads
    PyRunner,
    /// random priorities per job with a few change points
    Pct,
}

#[derive(Serialize, Deserialize, Clone, Copy, Debug, PartialEq, Eq)]
pub enum Leave {
    /// the failed/killed Output job leaves a garbage file
    Garbage,
    /// it leaves whatever was there
    Untouched,
    /// it leaves nothing
    Removed,
}

#[derive(Serialize, Deserialize, Clone, Copy, Debug, PartialEq, Eq)]
pub enum FailRunning {
    /// report every running job as failed first (what runner.py does)
    All,
    None,
    /// a drawn subset (bit i of the value decides for the i-th running job, sorted)
    Some(u64),
}

#[derive(Serialize, Deserialize, Clone, Debug, PartialEq)]
pub struct AbortPlan {
    /// abort when this many actions have been performed
    pub at: u32,
    pub fail_running: FailRunning,
    pub leave: Leave,
}

#[derive(Serialize, Deserialize, Clone, Copy, Debug, PartialEq, Eq)]
pub enum ContractMode {
    /// reports hashes that differ from what the same inputs produced before
    Semantic,
    /// reports the same hashes with a different noise component
    Textual,
}

#[derive(Serialize, Deserialize, Clone, Debug, PartialEq)]
pub struct MisusePlan {
    /// performed when this many actions have been performed
    pub at: u32,
    /// 0 now_running, 1 finished_success, 2 finished_failure, 3 cleanup_done, 4 startup
    pub call: u8,
    /// index (mod number of eligible jobs) into the sorted list of jobs for which the call is illegal
    pub pick: u32,
    /// issue the call before `event_startup` (calls 0..=3 only)
    #[serde(default)]
    pub before_startup: bool,
}

#[derive(Serialize, Deserialize, Clone, Debug, PartialEq)]
pub struct EvalPlan {
    pub policy: Policy,
    pub workers: u8,
    pub sched_seed: u64,
    pub hash_seed: u64,
    /// 0 = sorted declaration order; otherwise seeds a permutation of nodes and edges
    pub decl_seed: u64,
    /// def -> what a failing execution leaves behind
    pub fail: BTreeMap<usize, Leave>,
    /// the k-th job started in this evaluation (0-based) fails: a failure that is guaranteed to
    /// land on a job that actually runs, whatever the engine decides to run
    #[serde(default)]
    pub fail_started: BTreeMap<u32, Leave>,
    /// every Ephemeral that is re-executed although its inputs are unchanged (started in state
    /// Running(Validated)) fails: a failure that arrives late, after jobs were already skipped
    #[serde(default)]
    pub fail_validated_eph: Option<Leave>,
    pub abort: Option<AbortPlan>,
    pub contract: BTreeMap<usize, ContractMode>,
    pub misuse: Vec<MisusePlan>,
    /// action indices at which the driver calls `reconsider_all_jobs()` (a legal, public call the
    /// python runner keeps as a debugging aid): at a fixpoint it must change nothing
    #[serde(default)]
    pub reconsider: Vec<u32>,
}

impl EvalPlan {
    pub fn plain(policy: Policy, workers: u8, sched_seed: u64, hash_seed: u64, decl_seed: u64) -> Self {
        EvalPlan {
            policy,
            workers,
            sched_seed,
            hash_seed,
            decl_seed,
            fail: BTreeMap::new(),
            fail_started: BTreeMap::new(),
            fail_validated_eph: None,
            abort: None,
            contract: BTreeMap::new(),
            misuse: Vec::new(),
            reconsider: Vec::new(),
        }
    }
    pub fn fault_free(&self) -> bool {
        self.fail.is_empty() && self.fail_started.is_empty() && self.fail_validated_eph.is_none() && self.abort.is_none() && self.contract.is_empty()
    }
    pub fn without_faults(&self) -> EvalPlan {
        let mut p = self.clone();
        p.fail.clear();
        p.fail_started.clear();
        p.fail_validated_eph = None;
        p.abort = None;
        p.contract.clear();
        p.misuse.clear();
        p
    }
}

#[derive(Serialize, Deserialize, Clone, Debug, PartialEq)]
pub struct Round {
    pub edits: Vec<Edit>,
    pub plan: EvalPlan,
}

#[derive(Serialize, Deserialize, Clone, Debug, PartialEq)]
pub struct Scenario {
    pub seed: u64,
    pub profile: String,
    pub cfg: Config,
    pub defs: Vec<Def>,
    pub rounds: Vec<Round>,
}

/// Mutable graph state between evaluations.
#[derive(Clone, Debug, Default, PartialEq)]
pub struct GraphState {
    pub present: BTreeSet<usize>,
    /// current parts (universe indices) per def
    pub parts: BTreeMap<usize, Vec<u8>>,
    /// (down, up) -> consumed universe indices of up. Kept while an endpoint is absent.
    pub edges: BTreeMap<(usize, usize), Vec<u8>>,
    pub ext: BTreeMap<usize, u64>,
    pub kind: BTreeMap<usize, Kind>,
}

pub const ID_SEP: &str = ":::";

impl GraphState {
    pub fn kind_of(&self, defs: &[Def], d: usize) -> Kind {
        *self.kind.get(&d).unwrap_or(&defs[d].kind)
    }
    pub fn cur_parts(&self, defs: &[Def], d: usize) -> Vec<String> {
        let mut v: Vec<String> = match self.parts.get(&d) {
            Some(p) => p.iter().map(|i| defs[d].universe[*i as usize].clone()).collect(),
            None => vec![defs[d].universe[0].clone()],
        };
        v.sort();
        v
    }
    /// does a present job other than `d` currently produce one of `names`?
    pub fn part_taken(&self, defs: &[Def], d: usize, names: &[String]) -> bool {
        self.present.iter().any(|o| *o != d && *o < defs.len() && self.cur_parts(defs, *o).iter().any(|p| names.contains(p)))
    }
    pub fn job_id(&self, defs: &[Def], d: usize) -> String {
        self.cur_parts(defs, d).join(ID_SEP)
    }
    /// effective consumed part names of edge (down <- up)
    pub fn consumed(&self, defs: &[Def], down: usize, up: usize) -> Vec<String> {
        let cur = self.cur_parts(defs, up);
        let mut v: Vec<String> = match self.edges.get(&(down, up)) {
            Some(c) => c
                .iter()
                .filter_map(|i| defs[up].universe.get(*i as usize))
                .filter(|p| cur.contains(p))
                .cloned()
                .collect(),
            None => Vec::new(),
        };
        if v.is_empty() {
            v = cur;
        }
        v.sort();
        v.dedup();
        v
    }
    /// direct upstream defs of `down` among present jobs
    pub fn upstreams(&self, down: usize) -> Vec<usize> {
        self.edges
            .keys()
            .filter(|(d, u)| *d == down && self.present.contains(u))
            .map(|(_, u)| *u)
            .collect()
    }
    pub fn downstreams(&self, up: usize) -> Vec<usize> {
        self.edges
            .keys()
            .filter(|(d, u)| *u == up && self.present.contains(d))
            .map(|(d, _)| *d)
            .collect()
    }

    pub fn apply(&mut self, defs: &[Def], e: &Edit) {
        match e {
            Edit::AddJob { def } => {
                // an output file has one producer: void if another present job currently produces one of
                // this job's parts (definitions may share part names - a job merged into another, see gen.rs)
                if *def < defs.len() && !self.part_taken(defs, *def, &self.cur_parts(defs, *def)) {
                    self.present.insert(*def);
                    self.parts.entry(*def).or_insert_with(|| vec![0]);
                    self.ext.entry(*def).or_insert(0);
                }
            }
            Edit::RemoveJob { def } => {
                self.present.remove(def);
            }
            Edit::AddEdge { down, up, consumed } => {
                if up < down && *down < defs.len() {
                    self.edges.insert((*down, *up), consumed.clone());
                }
            }
            Edit::RemoveEdge { down, up } => {
                self.edges.remove(&(*down, *up));
            }
            // the external input exists only for Always jobs (an invariant); for a job that is
            // currently of another kind the edit is void (keeps shrunk scenarios meaningful)
            Edit::BumpExt { def } => {
                if *def < defs.len() && self.kind_of(defs, *def) == Kind::Always {
                    *self.ext.entry(*def).or_insert(0) += 1;
                }
            }
            Edit::RevertExt { def } => {
                if *def < defs.len() && self.kind_of(defs, *def) == Kind::Always {
                    let e = self.ext.entry(*def).or_insert(0);
                    if *e > 0 {
                        *e -= 1;
                    }
                }
            }
            Edit::DeleteOutput { .. } => {} // handled by the world (disk)
            Edit::SetParts { def, parts } => {
                if *def < defs.len() {
                    let mut p: Vec<u8> = parts
                        .iter()
                        .cloned()
                        .filter(|i| (*i as usize) < defs[*def].universe.len())
                        .collect();
                    p.sort();
                    p.dedup();
                    if !p.is_empty() {
                        let names: Vec<String> = p.iter().map(|i| defs[*def].universe[*i as usize].clone()).collect();
                        if !(self.present.contains(def) && self.part_taken(defs, *def, &names)) {
                            self.parts.insert(*def, p);
                        }
                    }
                }
            }
            // Output <-> Ephemeral only (a FileGeneratingJob re-declared as a TempFileGeneratingJob or
            // back). Always jobs are the invariants: they carry the external input, and turning one
            // into a file job would change behaviour with no Always job left to report it.
            Edit::SetKind { def, kind } => {
                if *def < defs.len() && *kind != Kind::Always && self.kind_of(defs, *def) != Kind::Always {
                    self.kind.insert(*def, *kind);
                }
            }
        }
    }
}
