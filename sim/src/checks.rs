//! Running a whole scenario (chain of evaluations) and the property specific
//! multi-run oracles (twins, resume triples, abort sweeps, metamorphic re-noising).

use crate::driver::*;
use crate::model::*;
use crate::oracle::*;
use crate::rng::{hash2, Rng};
use crate::world::*;
use std::collections::{BTreeMap, BTreeSet};

#[derive(Clone, Debug, Default)]
pub struct RunReport {
    /// (round, violation)
    pub violations: Vec<(usize, Violation)>,
    pub probes: Probes,
    pub evaluations: u64,
    pub engine_calls: u64,
    pub actions: u64,
    pub sim_ticks: u64,
    pub faults: BTreeMap<&'static str, u64>,
    pub interleaving_digests: Vec<u64>,
    pub shape_digests: Vec<(u64, bool)>,
    pub discarded: BTreeMap<&'static str, u64>,
    pub log_digest: u64,
    /// coverage features (see driver::EvalOut::features) of every evaluation of the scenario
    pub features: BTreeSet<u64>,
}

fn v(prop: &'static str, clause: &str, msg: String) -> Violation {
    Violation { prop, clause: clause.to_string(), msg }
}

fn count_faults(rep: &mut RunReport, out: &EvalOut, plan: &EvalPlan) {
    let mut f = |k: &'static str, n: u64| {
        if n > 0 {
            *rep.faults.entry(k).or_insert(0) += n;
        }
    };
    let injected = out.events.iter().filter(|(_, e)| matches!(e, Ev::Fail(_, FailWhy::Injected))).count() as u64;
    if !plan.fail.is_empty() || !plan.fail_started.is_empty() {
        *rep.probes.entry("failure_plans_drawn").or_insert(0) += 1;
        if injected == 0 {
            *rep.probes.entry("failure_plans_that_never_fired").or_insert(0) += 1;
        }
    }
    f("job_failure", injected);
    f(
        "consequent_failure_missing_input",
        out.events.iter().filter(|(_, e)| matches!(e, Ev::Fail(_, FailWhy::MissingInput))).count() as u64,
    );
    f(
        "running_job_failed_at_abort",
        out.events.iter().filter(|(_, e)| matches!(e, Ev::Fail(_, FailWhy::AbortKill))).count() as u64,
    );
    if out.aborted {
        f("abort", 1);
        f("running_job_killed_at_abort", out.running_at_abort.len() as u64);
    }
    f("contract_violation_detected", out.contract_err.len() as u64);
    if !plan.contract.is_empty() {
        let fired = out
            .ok
            .keys()
            .chain(out.contract_err.iter())
            .filter(|j| plan.contract.contains_key(&out.gv.jobs[**j].def))
            .count() as u64;
        f("contract_violating_ephemeral_executed", fired);
    }
    f("protocol_misuse", out.misuse_done as u64);
    if plan.policy == Policy::LateAcks {
        f("withheld_cleanup_acks", out.cleanup_offered.len() as u64);
    }
}

fn account(rep: &mut RunReport, out: &EvalOut, plan: &EvalPlan) {
    rep.evaluations += 1;
    rep.engine_calls += out.n_calls as u64;
    rep.actions += out.n_actions as u64;
    rep.sim_ticks += out.clock_end.saturating_sub(out.clock_start);
    count_faults(rep, out, plan);
    for (k, n) in out.probes.iter() {
        *rep.probes.entry(k).or_insert(0) += n;
    }
    *rep.probes.entry(match plan.policy {
        Policy::Uniform => "policy_uniform",
        Policy::Sequential => "policy_sequential",
        Policy::Eager => "policy_eager",
        Policy::Lifo => "policy_lifo",
        Policy::LateAcks => "policy_late_acks",
        Policy::PyRunner => "policy_pyrunner",
        Policy::Pct => "policy_pct",
    }).or_insert(0) += 1;
    rep.interleaving_digests.push(out.decisions_digest);
    rep.features.extend(out.features.iter().cloned());
    // shape digest: graph shape, history shape, disposition vector
    let mut h = 0u64;
    for (i, j) in out.gv.jobs.iter().enumerate() {
        h = hash2(h, j.kind as u64);
        for (u, _) in j.ups.iter() {
            h = hash2(h, (i * 31 + *u) as u64);
        }
        h = hash2(h, out.h_in.contains_key(&j.id) as u64);
        h = hash2(h, out.disp[i] as u64);
    }
    let skipped = out.disp.iter().any(|d| *d == Disp::Skipped);
    let executed = out.disp.iter().any(|d| *d == Disp::ExecOk);
    let faulty = !out.failed.is_empty() || out.aborted || !out.contract_err.is_empty() || out.misuse_done > 0;
    let nontrivial = skipped && executed && (faulty || out.max_in_flight >= 2);
    rep.shape_digests.push((h, nontrivial));
    // event log digest for the determinism self-test
    let mut d = rep.log_digest;
    for (a, e) in out.events.iter() {
        d = hash2(d, *a as u64);
        d = hash2(d, crate::rng::hash_str(&format!("{:?}", e)));
    }
    if let Some(ho) = &out.h_out {
        for (k, val) in ho.iter() {
            d = hash2(d, crate::rng::hash_str(k));
            d = hash2(d, crate::rng::hash_str(val));
        }
    }
    for vi in out.violations.iter() {
        d = hash2(d, crate::rng::hash_str(&vi.clause));
    }
    rep.log_digest = d;
}

fn push(rep: &mut RunReport, round: usize, vs: Vec<Violation>) {
    for x in vs {
        if !rep.violations.iter().any(|(r, y)| *r == round && y.prop == x.prop && y.clause == x.clause) {
            rep.violations.push((round, x));
        }
    }
}

fn started_ids(out: &EvalOut) -> BTreeSet<String> {
    out.started.iter().map(|j| out.gv.jobs[*j].id.clone()).collect()
}

fn disp_by_id(out: &EvalOut) -> BTreeMap<String, Disp> {
    (0..out.gv.jobs.len()).map(|j| (out.gv.jobs[j].id.clone(), out.disp[j])).collect()
}

/// equality of two histories under the configured comparison (same keys; values equal / cmp-equal)
pub fn history_diff(cfg: &Config, a: &BTreeMap<String, String>, b: &BTreeMap<String, String>) -> Option<String> {
    for k in a.keys() {
        if !b.contains_key(k) {
            return Some(format!("key {} only in first", k));
        }
    }
    for k in b.keys() {
        if !a.contains_key(k) {
            return Some(format!("key {} only in second", k));
        }
    }
    for (k, va) in a.iter() {
        let vb = &b[k];
        let is_names = k.ends_with("!!!");
        let same = if is_names || !cfg.noise { va == vb } else { records_equal(cfg, va, vb) };
        if !same {
            return Some(format!("value of {} differs", k));
        }
    }
    None
}

fn fresh_plan(base: &EvalPlan, salt: u64) -> EvalPlan {
    let mut r = Rng::new(hash2(base.sched_seed, salt));
    let policy = *r.pick(&[Policy::Uniform, Policy::Sequential, Policy::Eager, Policy::Lifo, Policy::LateAcks, Policy::PyRunner, Policy::Pct]);
    EvalPlan::plain(policy, *r.pick(&[0u8, 1, 2, 3]), r.next_u64() >> 1, base.hash_seed, base.decl_seed)
}

pub struct RunOpts {
    pub prop: String,
    pub thorough: bool,
}

/// Run the scenario; returns every violation found by any oracle (tagged by property).
pub fn run_scenario(sc: &Scenario, opts: &RunOpts) -> RunReport {
    let mut rep = RunReport::default();
    let mut world = World::default();
    let mut nondet = false;
    let mut tainted: BTreeSet<String> = BTreeSet::new();
    let mut truth = Truth::default();
    let prop = opts.prop.as_str();
    for (ri, round) in sc.rounds.iter().enumerate() {
        for e in round.edits.iter() {
            world.apply_edit(&sc.defs, e);
        }
        if !round.plan.contract.is_empty() {
            nondet = true;
        }
        let pre = world.clone();
        let salt = ri as u64 + 1;
        let out = evaluate(&sc.cfg, &sc.defs, &mut world, &round.plan, salt);
        account(&mut rep, &out, &round.plan);
        let ctx = OracleCtx { cfg: &sc.cfg, defs: &sc.defs, nondeterministic_outputs: nondet, tainted: Some(&tainted), truth: Some(&truth) };
        let mut vio = out.violations.clone();
        vio.extend(check_eval(&ctx, &out, &round.plan, &mut rep.probes));
        push(&mut rep, ri, vio);
        if out.engine_error.is_some() {
            *rep.discarded.entry("chain_cut_by_engine_error").or_insert(0) += 1;
            break;
        }
        for j in out.failed.iter().chain(out.contract_err.iter()).chain(out.running_at_abort.iter()) {
            tainted.insert(out.gv.jobs[*j].id.clone());
        }
        for j in out.ok.keys() {
            tainted.remove(&out.gv.jobs[*j].id);
            if let Some(c) = out.consumed_vals.get(j) {
                truth.consumed.insert(out.gv.jobs[*j].id.clone(), c.clone());
            }
        }
        for (p, v) in out.produced_vals.iter() {
            truth.produced.insert(p.clone(), *v);
        }
        match prop {
            "C07" => c07_twin(sc, &pre, &out, &round.plan, salt, ri, &mut rep),
            "C08" => c08_followup(sc, &world, &out, &round.plan, salt, ri, nondet, &mut rep),
            "C09" => c09_resume(sc, &pre, &round.plan, salt, ri, nondet, opts.thorough, &mut rep),
            "C10" => c10_sweep(sc, &pre, &round.plan, salt, ri, opts.thorough, &mut rep),
            "C12" => c12_reeval(sc, &world, &out, &round.plan, salt, ri, &mut rep),
            "C14" => c14_variants(sc, &pre, &out, &round.plan, salt, ri, opts.thorough, &mut rep),
            "C15" => c15_renoise(sc, &pre, &out, &round.plan, salt, ri, &mut rep),
            "C16" => c16_contract(&out, ri, &mut rep),
            "C20" => c20_twin(sc, &pre, &out, &round.plan, salt, ri, &mut rep),
            _ => {}
        }
    }
    rep
}

fn ancestors_failed(out: &EvalOut) -> Vec<bool> {
    let gv = &out.gv;
    let mut bad = vec![false; gv.jobs.len()];
    for j in gv.topo() {
        bad[j] = gv.jobs[j].ups.iter().any(|(u, _)| bad[*u] || out.failed.contains(u) || out.contract_err.contains(u));
    }
    bad
}

fn c07_twin(sc: &Scenario, pre: &World, out: &EvalOut, plan: &EvalPlan, salt: u64, ri: usize, rep: &mut RunReport) {
    if out.failed.is_empty() || out.aborted || !plan.contract.is_empty() {
        return;
    }
    let mut twins = Vec::new();
    for k in 0..2u64 {
        let mut w = pre.clone();
        let p = if k == 0 { plan.without_faults() } else { fresh_plan(plan, 100 + k) };
        let t = evaluate(&sc.cfg, &sc.defs, &mut w, &p, salt);
        account(rep, &t, &p);
        if t.engine_error.is_some() || !t.clean() {
            *rep.discarded.entry("c07_twin_not_clean").or_insert(0) += 1;
            return;
        }
        twins.push(t);
    }
    let bad = ancestors_failed(out);
    for j in 0..out.gv.jobs.len() {
        let job = &out.gv.jobs[j];
        if job.kind == Kind::Ephemeral || bad[j] || out.failed.contains(&j) {
            continue;
        }
        let t0 = twins[0].disp[j];
        if twins.iter().any(|t| t.disp[j] != t0) {
            *rep.probes.entry("c07_twin_disagreement_exempted").or_insert(0) += 1;
            continue;
        }
        *rep.probes.entry("c07_unaffected_jobs_compared").or_insert(0) += 1;
        if out.disp[j] != t0 {
            push(
                rep,
                ri,
                vec![v(
                    "C07",
                    "unaffected-job-behaves-differently",
                    format!("{} ({:?}) has no failed ancestor; with failures {:?}, without {:?}", job.id, job.kind, out.disp[j], t0),
                )],
            );
        }
    }
}

#[allow(clippy::too_many_arguments)]
fn c08_followup(sc: &Scenario, post: &World, out: &EvalOut, plan: &EvalPlan, salt: u64, ri: usize, nondet: bool, rep: &mut RunReport) {
    let bad: BTreeSet<usize> = out.failed.iter().chain(out.contract_err.iter()).chain(out.running_at_abort.iter()).cloned().collect();
    if bad.is_empty() || out.h_out.is_none() {
        return;
    }
    let mut w = post.clone();
    let p = fresh_plan(plan, 200);
    let f = evaluate(&sc.cfg, &sc.defs, &mut w, &p, salt + 1000);
    account(rep, &f, &p);
    if f.engine_error.is_some() {
        *rep.discarded.entry("c08_followup_engine_error").or_insert(0) += 1;
        return;
    }
    let live = f.gv.live();
    for b in bad {
        let id = &out.gv.jobs[b].id;
        if let Some(j) = f.gv.idx.get(id) {
            if !live[*j] {
                continue;
            }
            *rep.probes.entry("c08_followups_checked").or_insert(0) += 1;
            // it must be executed again as soon as its upstreams succeed
            let ups_ok = f.gv.jobs[*j].ups.iter().all(|(u, _)| matches!(f.disp[*u], Disp::ExecOk | Disp::Skipped));
            if ups_ok && !f.started.contains(j) {
                push(
                    rep,
                    ri,
                    vec![v(
                        "C08",
                        "failed-job-not-re-executed",
                        format!("{} ({:?}) failed/was killed; the next evaluation ended with it {:?}", id, f.gv.jobs[*j].kind, f.disp[*j]),
                    )],
                );
            }
        }
    }
    let _ = nondet;
}

/// the records a never-started job must keep
fn check_kept_records(cfg: &Config, out: &EvalOut, ri: usize, rep: &mut RunReport) {
    let h_out = match &out.h_out {
        Some(h) => h,
        None => return,
    };
    let gv = &out.gv;
    let live = gv.live();
    for j in 0..gv.jobs.len() {
        // never started because an upstream failed (the simulator's own blocked set - independent of
        // how the engine labels the job) or because the run was aborted
        let never_started_interrupted = !out.started.contains(&j)
            && (out.blocked.contains(&j) || matches!(out.disp[j], Disp::UpstreamFailed | Disp::AbortedNeverStarted));
        if !never_started_interrupted || !live[j] {
            continue;
        }
        let job = &gv.jobs[j];
        *rep.probes.entry("c09_never_started_jobs_checked").or_insert(0) += 1;
        let mut keys: Vec<(String, Option<(usize, Vec<String>)>)> = vec![(job.id.clone(), None), (format!("{}!!!", job.id), None)];
        for (u, consumed) in job.ups.iter() {
            keys.push((format!("{}!!!{}", gv.jobs[*u].id, job.id), Some((*u, consumed.clone()))));
        }
        for (k, edge) in keys {
            // dependency records: a textual refresh that the configured comparison judges
            // unaltered is not a loss (C15); own records must be byte-identical
            let mut same = match (out.h_in.get(&k), h_out.get(&k)) {
                (Some(a), Some(b)) if edge.is_some() => records_equal(cfg, a, b),
                (a, b) => a == b,
            };
            if !same {
                if let Some((u, consumed)) = &edge {
                    // the record may have moved to the upstream's new name (a validly skipped job
                    // below a renamed multi-output upstream that was re-labelled upstream-failed gets
                    // its record re-written under the current name): what counts is that what the
                    // job's records say it consumed from this upstream is unaltered
                    let before = recorded_input(cfg, gv, &out.h_in, *u, j, consumed);
                    let after = recorded_input(cfg, gv, h_out, *u, j, consumed);
                    match (before, after) {
                        (Ok(Some(a)), Ok(Some(b))) => {
                            if let Ok(false) = altered(cfg, &gv.jobs[*u].parts, Some(consumed.as_slice()), &a, &b) {
                                *rep.probes.entry("c09_dependency_record_moved_to_new_upstream_name").or_insert(0) += 1;
                                same = true;
                            }
                        }
                        (Err(()), _) | (_, Err(())) => {
                            *rep.discarded.entry("c09_ambiguous_recorded_input").or_insert(0) += 1;
                            same = true;
                        }
                        (Ok(None), Ok(None)) => same = true,
                        _ => {}
                    }
                }
            }
            if !same {
                push(
                    rep,
                    ri,
                    vec![v(
                        "C09",
                        if out.disp[j] == Disp::AbortedNeverStarted { "never-started-aborted-job-lost-records" } else { "upstream-failed-job-lost-records" },
                        format!(
                            "{} ({:?}) was never started ({:?}) but its record {} went from {} to {}",
                            job.id,
                            job.kind,
                            out.disp[j],
                            if k.ends_with("!!!") { "input-list" } else if k.contains("!!!") { "dependency" } else { "output" },
                            if out.h_in.contains_key(&k) { "present" } else { "absent" },
                            if h_out.contains_key(&k) { "present/changed" } else { "absent" }
                        ),
                    )],
                );
                break;
            }
        }
    }
}

#[allow(clippy::too_many_arguments)]
fn c09_triple(sc: &Scenario, pre: &World, u: &EvalOut, iplan: &EvalPlan, salt: u64, ri: usize, rep: &mut RunReport, tag: u64) {
    let mut wi = pre.clone();
    let i = evaluate(&sc.cfg, &sc.defs, &mut wi, iplan, salt);
    account(rep, &i, iplan);
    if i.engine_error.is_some() {
        *rep.discarded.entry("c09_interrupted_engine_error").or_insert(0) += 1;
        return;
    }
    if i.failed.is_empty() && !i.aborted {
        return; // nothing interrupted
    }
    check_kept_records(&sc.cfg, &i, ri, rep);
    let splan = fresh_plan(iplan, 300 + tag);
    let mut ws = wi.clone();
    let s = evaluate(&sc.cfg, &sc.defs, &mut ws, &splan, salt + 2000);
    account(rep, &s, &splan);
    if s.engine_error.is_some() {
        *rep.discarded.entry("c09_resume_engine_error").or_insert(0) += 1;
        return;
    }
    *rep.probes.entry("c09_triples_checked").or_insert(0) += 1;
    if std::env::var("VERIF_TRACE_TRIPLE").is_ok() {
        crate::shrink::trace_eval("U", u);
        crate::shrink::trace_eval(&format!("I {:?}", iplan), &i);
        crate::shrink::trace_eval("S", &s);
    }
    let su = started_ids(u);
    let ss = started_ids(&s);
    for x in ss.difference(&su) {
        push(
            rep,
            ri,
            vec![v(
                "C09",
                "resume-executes-extra-job",
                format!("resume executed {} which the uninterrupted evaluation did not execute (in the interrupted run it ended {:?})",
                    x, i.gv.idx.get(x).map(|j| i.disp[*j])),
            )],
        );
    }
    for (j, _) in i.ok.iter() {
        if i.gv.jobs[*j].kind == Kind::Output && ss.contains(&i.gv.jobs[*j].id) {
            push(
                rep,
                ri,
                vec![v("C09", "resume-re-executes-succeeded-output", format!("{} succeeded before the interruption and was executed again", i.gv.jobs[*j].id))],
            );
        }
    }
    if s.clean() && u.clean() {
        for job in s.gv.jobs.iter().filter(|j| j.kind == Kind::Output) {
            for p in job.parts.iter() {
                if s.disk_after.get(p) != u.disk_after.get(p) {
                    push(rep, ri, vec![v("C09", "resumed-outputs-differ", format!("{} part {} differs from the uninterrupted evaluation", job.id, p))]);
                }
            }
        }
        if let (Some(hs), Some(hu)) = (&s.h_out, &u.h_out) {
            if let Some(d) = history_diff(&sc.cfg, hs, hu) {
                push(rep, ri, vec![v("C09", "resumed-history-differs", format!("history after resume vs uninterrupted: {}", normalise_key_msg(&d)))]);
            }
        }
    }
}

fn normalise_key_msg(s: &str) -> String {
    // keep the kind of key, not the ids
    let kind = if s.contains("!!! ") || s.ends_with("!!!") {
        "input-list record"
    } else if s.contains("!!!") {
        "dependency record"
    } else {
        "output record"
    };
    let what = if s.starts_with("key") {
        if s.contains("only in first") {
            "extra after resume"
        } else {
            "missing after resume"
        }
    } else {
        "value differs"
    };
    format!("{} {}", kind, what)
}

#[allow(clippy::too_many_arguments)]
fn c09_resume(sc: &Scenario, pre: &World, plan: &EvalPlan, salt: u64, ri: usize, nondet: bool, thorough: bool, rep: &mut RunReport) {
    if nondet {
        return;
    }
    // U: uninterrupted, failure free
    let uplan = plan.without_faults();
    let mut wu = pre.clone();
    let u = evaluate(&sc.cfg, &sc.defs, &mut wu, &uplan, salt);
    account(rep, &u, &uplan);
    if u.engine_error.is_some() || !u.clean() {
        *rep.discarded.entry("c09_uninterrupted_not_clean").or_insert(0) += 1;
        return;
    }
    let n = u.gv.jobs.len();
    if n == 0 {
        return;
    }
    let mut r = Rng::new(hash2(plan.sched_seed, 0xC09));
    // failure subsets
    let n_fail = if thorough { 6 } else { 3 };
    let executed: Vec<usize> = u.started.iter().cloned().collect();
    for k in 0..n_fail {
        let mut ip = uplan.clone();
        let cnt = 1 + r.below(2.min(n));
        for _ in 0..cnt {
            // mostly jobs the uninterrupted evaluation executes (a failure plan for a job that is
            // never started injects nothing)
            let j = if !executed.is_empty() && r.chance(4, 5) { *r.pick(&executed) } else { r.below(n) };
            ip.fail.insert(u.gv.jobs[j].def, *r.pick(&[Leave::Garbage, Leave::Untouched, Leave::Removed]));
        }
        if r.chance(1, 3) {
            ip.sched_seed = r.next_u64() >> 1;
        }
        c09_triple(sc, pre, &u, &ip, salt, ri, rep, k);
    }
    {
        // a late failure: every validated Ephemeral that is re-executed fails
        let mut ip = uplan.clone();
        ip.fail_validated_eph = Some(*r.pick(&[Leave::Garbage, Leave::Untouched, Leave::Removed]));
        c09_triple(sc, pre, &u, &ip, salt, ri, rep, 9);
    }
    // abort sweep over the prefixes of the uninterrupted schedule
    let len = u.n_actions;
    let prefixes: Vec<u32> = if thorough || len <= 4 {
        (0..=len).collect()
    } else {
        let mut v: Vec<u32> = (0..3).map(|_| r.below(len as usize + 1) as u32).collect();
        v.push(0);
        v.sort();
        v.dedup();
        v
    };
    for at in prefixes {
        for mode in [FailRunning::All, FailRunning::None] {
            if !thorough && mode == FailRunning::None && r.chance(1, 2) {
                continue;
            }
            let mut ip = uplan.clone();
            ip.abort = Some(AbortPlan { at, fail_running: mode, leave: *r.pick(&[Leave::Garbage, Leave::Untouched, Leave::Removed]) });
            *rep.faults.entry("abort_sweep_point").or_insert(0) += 1;
            c09_triple(sc, pre, &u, &ip, salt, ri, rep, 10 + at as u64);
        }
    }
}

fn c10_sweep(sc: &Scenario, pre: &World, plan: &EvalPlan, salt: u64, ri: usize, thorough: bool, rep: &mut RunReport) {
    // the base schedule (with whatever failures the plan has, but no abort)
    let mut base = plan.clone();
    base.abort = None;
    base.misuse.clear();
    let mut w = pre.clone();
    let b = evaluate(&sc.cfg, &sc.defs, &mut w, &base, salt);
    account(rep, &b, &base);
    if b.engine_error.is_some() {
        return;
    }
    let len = b.n_actions;
    let mut r = Rng::new(hash2(plan.sched_seed, 0xC10));
    for at in 0..=len {
        let modes: Vec<FailRunning> = if thorough {
            vec![FailRunning::All, FailRunning::None, FailRunning::Some(r.next_u64())]
        } else {
            vec![*r.pick(&[FailRunning::All, FailRunning::None, FailRunning::Some(0x5555_5555_5555_5555)])]
        };
        for mode in modes {
            let mut ip = base.clone();
            ip.abort = Some(AbortPlan { at, fail_running: mode, leave: *r.pick(&[Leave::Garbage, Leave::Untouched, Leave::Removed]) });
            let mut wi = pre.clone();
            let i = evaluate(&sc.cfg, &sc.defs, &mut wi, &ip, salt);
            account(rep, &i, &ip);
            *rep.faults.entry("abort_sweep_point").or_insert(0) += 1;
            let ctx = OracleCtx { cfg: &sc.cfg, defs: &sc.defs, nondeterministic_outputs: true, tainted: None, truth: None };
            let mut vio = i.violations.clone();
            vio.extend(check_eval(&ctx, &i, &ip, &mut rep.probes));
            // a fatal engine error during an abort sweep is a C10 matter when it happens at/after the abort
            if i.aborted && i.h_out.is_none() && !vio.iter().any(|x| x.prop == "C10") {
                vio.push(v("C10", "no-history-after-abort", format!("aborted at {} but no history could be obtained: {:?}", at, i.engine_error)));
            }
            push(rep, ri, vio);
        }
    }
}

fn c12_reeval(sc: &Scenario, post: &World, out: &EvalOut, plan: &EvalPlan, salt: u64, ri: usize, rep: &mut RunReport) {
    if !out.clean() || out.h_out.is_none() {
        return;
    }
    let p = fresh_plan(plan, 400);
    let mut w = post.clone();
    let e2 = evaluate(&sc.cfg, &sc.defs, &mut w, &p, salt + 3000);
    account(rep, &e2, &p);
    if e2.engine_error.is_some() {
        *rep.discarded.entry("c12_second_evaluation_engine_error").or_insert(0) += 1;
        return;
    }
    *rep.probes.entry("c12_reevaluations_checked").or_insert(0) += 1;
    let gv = &e2.gv;
    // Ephemerals that reach an Always through Ephemerals only
    let mut feeds_always = vec![false; gv.jobs.len()];
    for &j in gv.topo().iter().rev() {
        feeds_always[j] = match gv.jobs[j].kind {
            Kind::Always => true,
            Kind::Ephemeral => gv.jobs[j].downs.iter().any(|d| feeds_always[*d]),
            Kind::Output => false,
        };
    }
    for j in 0..gv.jobs.len() {
        let job = &gv.jobs[j];
        let started = e2.started.contains(&j);
        match job.kind {
            Kind::Output => {
                if started {
                    push(rep, ri, vec![v("C12", "output-re-executed", format!("{} executed although nothing changed", job.id))]);
                }
            }
            Kind::Always => {
                if !started && e2.clean() {
                    push(rep, ri, vec![v("C12", "always-not-executed", format!("{} not executed", job.id))]);
                }
            }
            Kind::Ephemeral => {
                if started && !feeds_always[j] {
                    push(rep, ri, vec![v("C12", "ephemeral-re-executed", format!("{} executed although nothing changed and no Always job consumes it", job.id))]);
                }
                if !started && feeds_always[j] && e2.clean() {
                    push(rep, ri, vec![v("C12", "ephemeral-for-always-not-executed", format!("{} feeds an Always job but was not executed", job.id))]);
                }
            }
        }
    }
    if let (Some(h1), Some(h2)) = (&out.h_out, &e2.h_out) {
        if e2.clean() {
            if let Some(d) = history_diff(&sc.cfg, h2, h1) {
                push(rep, ri, vec![v("C12", "history-not-a-fixpoint", format!("second evaluation: {}", normalise_key_msg(&d)))]);
            }
        }
    }
}

#[allow(clippy::too_many_arguments)]
fn c14_variants(sc: &Scenario, pre: &World, out: &EvalOut, plan: &EvalPlan, salt: u64, ri: usize, thorough: bool, rep: &mut RunReport) {
    if !plan.fault_free() || out.engine_error.is_some() || !out.clean() {
        return;
    }
    let k = if thorough { 7 } else { 3 };
    let mut r = Rng::new(hash2(plan.sched_seed, 0xC14));
    let base_disp = disp_by_id(out);
    for i in 0..k {
        let mut p = fresh_plan(plan, 500 + i);
        // The outcome must be a function of graph, history, present outputs and job behaviour: the hidden
        // iteration order of the engine's hash containers is not among them (until fix 2bd089b a tie in the
        // renamed-upstream lookup was broken by it, which is why the seed used to be held fixed in a group).
        // Every other variant runs under another hash seed.
        p.hash_seed = if i % 2 == 1 { (r.next_u64() >> 1) | 1 } else { plan.hash_seed };
        p.decl_seed = if r.chance(1, 4) { plan.decl_seed } else { (r.next_u64() >> 1) | 1 };
        let mut w = pre.clone();
        let t = evaluate(&sc.cfg, &sc.defs, &mut w, &p, salt);
        account(rep, &t, &p);
        if t.engine_error.is_some() {
            *rep.discarded.entry("c14_variant_engine_error").or_insert(0) += 1;
            continue;
        }
        *rep.probes.entry("c14_variants_compared").or_insert(0) += 1;
        let d = disp_by_id(&t);
        if d != base_disp {
            let diff: Vec<String> = d
                .iter()
                .filter(|(id, x)| base_disp.get(*id) != Some(x))
                .map(|(id, x)| format!("{}: {:?} vs {:?}", id, base_disp.get(id), x))
                .collect();
            push(
                rep,
                ri,
                vec![v(
                    "C14",
                    "disposition-depends-on-order",
                    format!("dispositions differ between {:?}/decl {} and {:?}/decl {}{}: {}", plan.policy, plan.decl_seed != 0, p.policy, p.decl_seed != 0, if p.hash_seed != plan.hash_seed { "/other hash seed" } else { "" }, diff.join(", ")),
                )],
            );
        }
        if let (Some(h1), Some(h2)) = (&out.h_out, &t.h_out) {
            if let Some(dd) = history_diff(&sc.cfg, h1, h2) {
                push(rep, ri, vec![v("C14", "history-depends-on-order", normalise_key_msg(&dd))]);
            }
        }
        // which Ephemerals were released for cleanup is part of the outcome as well
        let rel = |o: &EvalOut| -> BTreeSet<String> { o.cleanup_offered.iter().map(|j| o.gv.jobs[*j].id.clone()).collect() };
        if rel(out) != rel(&t) {
            push(
                rep,
                ri,
                vec![v(
                    "C14",
                    "cleanup-release-depends-on-order",
                    format!("the set of Ephemerals offered for cleanup differs between {:?} and {:?}", plan.policy, p.policy),
                )],
            );
        }
    }
}

fn c15_renoise(sc: &Scenario, pre: &World, out: &EvalOut, plan: &EvalPlan, salt: u64, ri: usize, rep: &mut RunReport) {
    if sc.cfg.cmp != Cmp::Semantic || out.engine_error.is_some() {
        return;
    }
    let mut w = pre.clone();
    let mut changed = 0;
    for (i, (k, val)) in w.history.iter_mut().enumerate() {
        if !k.ends_with("!!!") {
            let nv = renoise(val, hash2(plan.sched_seed, i as u64));
            if nv != *val {
                changed += 1;
            }
            *val = nv;
        }
    }
    if changed == 0 {
        return;
    }
    *rep.faults.entry("records_renoised").or_insert(0) += changed;
    let t = evaluate(&sc.cfg, &sc.defs, &mut w, plan, salt);
    account(rep, &t, plan);
    *rep.probes.entry("c15_renoised_runs_compared").or_insert(0) += 1;
    if let Some(e) = &t.engine_error {
        push(rep, ri, vec![v("C15", "textual-difference-causes-error", format!("after re-noising the records: {}", e))]);
        return;
    }
    let (a, b) = (started_ids(out), started_ids(&t));
    for x in b.difference(&a) {
        push(
            rep,
            ri,
            vec![v(
                "C15",
                "textual-difference-causes-execution",
                format!("{} ({:?}) executed only because records differ textually", x, t.gv.idx.get(x).map(|j| t.gv.jobs[*j].kind)),
            )],
        );
    }
    for x in a.difference(&b) {
        push(rep, ri, vec![v("C15", "textual-difference-prevents-execution", format!("{} not executed after re-noising", x))]);
    }
    if disp_by_id(out) != disp_by_id(&t) && a == b {
        push(rep, ri, vec![v("C15", "textual-difference-changes-disposition", "dispositions differ after re-noising".to_string())]);
    }
    if let (Some(h1), Some(h2)) = (&out.h_out, &t.h_out) {
        if a == b {
            // compare under the comparison (noise differs by construction)
            let mut cfgn = sc.cfg.clone();
            cfgn.noise = true;
            if let Some(d) = history_diff(&cfgn, h1, h2) {
                push(rep, ri, vec![v("C15", "textual-difference-changes-history", normalise_key_msg(&d))]);
            }
        }
    }
    // "... and never make the outcome depend on scheduling or declaration order": on the re-noised
    // history (every record pair textually different) a second schedule / declaration order must give
    // the same outcome as the first (fault-free evaluations only, as in C14)
    if plan.fault_free() && t.clean() {
        let mut r = Rng::new(hash2(plan.sched_seed, 0xC15));
        let mut p = fresh_plan(plan, 900);
        p.hash_seed = plan.hash_seed;
        p.decl_seed = (r.next_u64() >> 1) | 1;
        let mut w2 = pre.clone();
        w2.history = {
            // the same re-noised records
            let mut w3 = pre.clone();
            for (i, (k, val)) in w3.history.iter_mut().enumerate() {
                if !k.ends_with("!!!") {
                    *val = renoise(val, hash2(plan.sched_seed, i as u64));
                }
            }
            w3.history
        };
        let t2 = evaluate(&sc.cfg, &sc.defs, &mut w2, &p, salt);
        account(rep, &t2, &p);
        if t2.engine_error.is_none() {
            *rep.probes.entry("c15_renoised_order_variants_compared").or_insert(0) += 1;
            let mut cfgn = sc.cfg.clone();
            cfgn.noise = true;
            let hist_differs = match (&t.h_out, &t2.h_out) {
                (Some(h1), Some(h2)) => history_diff(&cfgn, h1, h2).is_some(),
                _ => false,
            };
            if disp_by_id(&t) != disp_by_id(&t2) || hist_differs {
                push(
                    rep,
                    ri,
                    vec![v(
                        "C15",
                        "textual-difference-makes-outcome-order-dependent",
                        format!("with textually different, comparison-equal records the outcome differs between {:?} and {:?}/another declaration order", plan.policy, p.policy),
                    )],
                );
            }
        }
    }
}

fn c16_contract(out: &EvalOut, ri: usize, rep: &mut RunReport) {
    if out.contract_err.is_empty() || out.engine_error.is_some() {
        return;
    }
    let gv = &out.gv;
    let live = gv.live();
    for e in out.contract_err.iter() {
        *rep.probes.entry("c16_detected_contract_violations_checked").or_insert(0) += 1;
        if !out.failed_q.contains(e) {
            push(rep, ri, vec![v("C16", "offender-not-reported-failed", format!("{} raised the contract error but is not in query_failed", gv.jobs[*e].id))]);
        }
        if let Some(h) = &out.h_out {
            if h.contains_key(&gv.jobs[*e].id) || h.contains_key(&format!("{}!!!", gv.jobs[*e].id)) {
                push(rep, ri, vec![v("C16", "offender-recorded", format!("{} raised the contract error but has records", gv.jobs[*e].id))]);
            }
            for (u, _) in gv.jobs[*e].ups.iter() {
                let k = format!("{}!!!{}", gv.jobs[*u].id, gv.jobs[*e].id);
                if h.get(&k) != out.h_in.get(&k) {
                    push(rep, ri, vec![v("C16", "offender-edge-record-changed", format!("{} changed", k))]);
                }
            }
        }
    }
    if !out.aborted {
        for b in out.blocked.iter() {
            if live[*b] && !out.started.contains(b) && !out.upstream_failed_q.contains(b) {
                // is it blocked through a contract offender?
                push(
                    rep,
                    ri,
                    vec![v(
                        "C16",
                        "dependant-not-upstream-failed",
                        format!("{} depends on a job that violated its contract but ended {:?}", gv.jobs[*b].id, out.disp[*b]),
                    )],
                );
            }
        }
    }
}

fn c20_twin(sc: &Scenario, pre: &World, out: &EvalOut, plan: &EvalPlan, salt: u64, ri: usize, rep: &mut RunReport) {
    if plan.misuse.is_empty() || out.misuse_done == 0 {
        return;
    }
    let mut p = plan.clone();
    p.misuse.clear();
    let mut w = pre.clone();
    let t = evaluate(&sc.cfg, &sc.defs, &mut w, &p, salt);
    account(rep, &t, &p);
    *rep.probes.entry("c20_twins_compared").or_insert(0) += 1;
    if t.engine_error.is_some() != out.engine_error.is_some() {
        if out.engine_error.is_some() {
            push(rep, ri, vec![v("C20", "run-with-misuse-ends-differently", format!("with misuse: {:?}; without: ok", out.engine_error))]);
        }
        return;
    }
    if t.engine_error.is_some() {
        return;
    }
    let ev = |o: &EvalOut| -> Vec<String> {
        o.events.iter().filter(|(_, e)| !matches!(e, Ev::Misuse { .. })).map(|(a, e)| format!("{} {:?}", a, e)).collect()
    };
    if ev(out) != ev(&t) || out.h_out != t.h_out || out.disp != t.disp {
        let what = if out.disp != t.disp {
            "dispositions"
        } else if out.h_out != t.h_out {
            "history"
        } else {
            "event sequence"
        };
        push(rep, ri, vec![v("C20", "run-with-misuse-ends-differently", format!("{} differ from the misuse-free twin", what))]);
    }
}
