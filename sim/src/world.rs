//! World model: stub of jobs, file system and history store.

use crate::model::*;
use crate::rng::{hash2, hash_str};
use std::collections::BTreeMap;

#[derive(Clone, Debug, Default, PartialEq)]
pub struct World {
    pub g: GraphState,
    /// materialised output parts of Output jobs: part name -> content value.
    /// Garbage is simply a value no clean build can produce.
    pub disk: BTreeMap<String, u64>,
    /// exactly the map returned by the previous new_history()
    pub history: BTreeMap<String, String>,
    pub clock: u64,
    pub garbage_ctr: u64,
}

#[derive(Clone, Debug)]
pub struct JobView {
    pub def: usize,
    pub id: String,
    pub kind: Kind,
    pub parts: Vec<String>,
    /// (job index of upstream, consumed part names)
    pub ups: Vec<(usize, Vec<String>)>,
    pub downs: Vec<usize>,
    /// all consumed part names, sorted
    pub consumed_names: Vec<String>,
    pub ext: u64,
}

/// The graph as declared to the engine for one evaluation. Jobs sorted by id.
#[derive(Clone, Debug)]
pub struct GraphView {
    pub jobs: Vec<JobView>,
    pub idx: BTreeMap<String, usize>,
    /// part name -> job index producing it
    pub part_owner: BTreeMap<String, usize>,
}

impl GraphView {
    pub fn build(defs: &[Def], g: &GraphState) -> GraphView {
        let mut jobs: Vec<JobView> = g
            .present
            .iter()
            .map(|d| JobView {
                def: *d,
                id: g.job_id(defs, *d),
                kind: g.kind_of(defs, *d),
                parts: g.cur_parts(defs, *d),
                ups: Vec::new(),
                downs: Vec::new(),
                consumed_names: Vec::new(),
                ext: *g.ext.get(d).unwrap_or(&0),
            })
            .collect();
        jobs.sort_by(|a, b| a.id.cmp(&b.id));
        let mut idx = BTreeMap::new();
        let mut def_to_idx = BTreeMap::new();
        let mut part_owner = BTreeMap::new();
        for (i, j) in jobs.iter().enumerate() {
            idx.insert(j.id.clone(), i);
            def_to_idx.insert(j.def, i);
            for p in j.parts.iter() {
                part_owner.insert(p.clone(), i);
            }
        }
        for ((down, up), _) in g.edges.iter() {
            if let (Some(di), Some(ui)) = (def_to_idx.get(down), def_to_idx.get(up)) {
                let consumed = g.consumed(defs, *down, *up);
                jobs[*di].ups.push((*ui, consumed));
                jobs[*ui].downs.push(*di);
            }
        }
        for j in jobs.iter_mut() {
            j.ups.sort();
            j.downs.sort();
            let mut names: Vec<String> = j.ups.iter().flat_map(|(_, c)| c.iter().cloned()).collect();
            names.sort();
            names.dedup();
            j.consumed_names = names;
        }
        GraphView { jobs, idx, part_owner }
    }

    /// input name list as the configured convention defines it
    pub fn names(&self, cfg: &Config, j: usize) -> String {
        match cfg.names {
            Names::JobIds => {
                let mut v: Vec<&str> = self.jobs[j].ups.iter().map(|(u, _)| self.jobs[*u].id.as_str()).collect();
                v.sort();
                v.join("\n")
            }
            Names::Parts => self.jobs[j].consumed_names.join("\n"),
        }
    }

    /// topological order (upstreams first); defs are ordered so that up < down
    pub fn topo(&self) -> Vec<usize> {
        let mut order: Vec<usize> = (0..self.jobs.len()).collect();
        order.sort_by_key(|i| self.jobs[*i].def);
        order
    }

    /// live(j): non-Ephemeral, or an Ephemeral from which a path through Ephemerals only
    /// reaches a non-Ephemeral.
    pub fn live(&self) -> Vec<bool> {
        let mut live = vec![false; self.jobs.len()];
        for &i in self.topo().iter().rev() {
            live[i] = match self.jobs[i].kind {
                Kind::Ephemeral => self.jobs[i].downs.iter().any(|d| live[*d]),
                _ => true,
            };
        }
        live
    }
}

/// content of one part given the values of what the job consumed
pub fn content(defs: &[Def], job: &JobView, part: &str, inputs: &[(usize, String, u64)]) -> u64 {
    let d = &defs[job.def];
    let ui = d.universe.iter().position(|p| p == part).unwrap_or(0);
    let mut h = hash_str(part);
    if d.constant.get(ui).copied().unwrap_or(false) {
        return h;
    }
    h = hash2(h, job.ext);
    let empty = Vec::new();
    let ign = d.ignores.get(ui).unwrap_or(&empty);
    let mut ins: Vec<&(usize, String, u64)> = inputs.iter().filter(|(updef, _, _)| !ign.contains(updef)).collect();
    ins.sort_by(|a, b| a.1.cmp(&b.1));
    for (_, p, v) in ins {
        h = hash2(h, hash_str(p));
        h = hash2(h, *v);
    }
    h
}

/// what building the current graph from scratch would produce: part -> value
pub fn clean_build(defs: &[Def], gv: &GraphView) -> BTreeMap<String, u64> {
    let mut vals: BTreeMap<String, u64> = BTreeMap::new();
    for i in gv.topo() {
        let j = &gv.jobs[i];
        let mut inputs = Vec::new();
        for (u, consumed) in j.ups.iter() {
            for p in consumed {
                inputs.push((gv.jobs[*u].def, p.clone(), *vals.get(p).unwrap_or(&0)));
            }
        }
        for p in j.parts.iter() {
            let v = content(defs, j, p, &inputs);
            vals.insert(p.clone(), v);
        }
    }
    vals
}

pub fn format_record(parts: &[(String, u64)], noise: u64) -> String {
    let mut v: Vec<&(String, u64)> = parts.iter().collect();
    v.sort();
    v.iter()
        .map(|(p, h)| format!("{}={:016x}@{}", p, h, noise))
        .collect::<Vec<_>>()
        .join("|")
}

/// part -> (hash, noise)
pub fn parse_record(s: &str) -> Option<BTreeMap<String, (u64, u64)>> {
    let mut out = BTreeMap::new();
    if s.is_empty() {
        return Some(out);
    }
    for item in s.split('|') {
        let (p, rest) = item.split_once('=')?;
        let (h, n) = rest.split_once('@')?;
        out.insert(p.to_string(), (u64::from_str_radix(h, 16).ok()?, n.parse().ok()?));
    }
    Some(out)
}

/// replace the noise component of every part by a different value (comparison-equal under Semantic)
pub fn renoise(s: &str, salt: u64) -> String {
    match parse_record(s) {
        Some(m) => {
            let parts: Vec<String> = m
                .iter()
                .map(|(p, (h, n))| format!("{}={:016x}@{}", p, h, n + 1000 + (hash2(salt, hash_str(p)) % 1000)))
                .collect();
            parts.join("|")
        }
        None => s.to_string(),
    }
}

/// The configured comparison, as a pure function. `Err` = the comparison itself raised
/// (KeyError in history_comparisons.py -> `expect` panic on the Rust side).
pub fn altered(
    cfg: &Config,
    up_parts: &[String],
    down_inputs: Option<&[String]>, // None = the "!!!" self comparison
    last: &str,
    now: &str,
) -> Result<bool, String> {
    if last == now {
        return Ok(false);
    }
    match cfg.cmp {
        Cmp::Exact => Ok(true),
        Cmp::Semantic => {
            let l = parse_record(last).ok_or_else(|| format!("unparsable record {:?}", last))?;
            let n = parse_record(now).ok_or_else(|| format!("unparsable record {:?}", now))?;
            let check = |ip: &String| -> Result<bool, String> {
                let a = l.get(ip).ok_or_else(|| format!("KeyError {} in last", ip))?;
                let b = n.get(ip).ok_or_else(|| format!("KeyError {} in now", ip))?;
                Ok(a.0 != b.0)
            };
            match down_inputs {
                None => {
                    for ip in up_parts {
                        if check(ip)? {
                            return Ok(true);
                        }
                    }
                }
                Some(inputs) => {
                    for ip in inputs {
                        if up_parts.contains(ip) {
                            // history_comparisons.py: a consumed output that the old record (of a
                            // renamed upstream) does not have counts as altered
                            if !l.contains_key(ip) {
                                return Ok(true);
                            }
                            if check(ip)? {
                                return Ok(true);
                            }
                        }
                    }
                }
            }
            Ok(false)
        }
    }
}

/// comparison-equality of two records of job `up` as a whole (used by oracles that compare
/// histories): under Exact string equality, under Semantic equal part sets and hashes.
pub fn records_equal(cfg: &Config, a: &str, b: &str) -> bool {
    if a == b {
        return true;
    }
    match cfg.cmp {
        Cmp::Exact => false,
        Cmp::Semantic => match (parse_record(a), parse_record(b)) {
            (Some(x), Some(y)) => {
                x.len() == y.len() && x.iter().all(|(p, (h, _))| y.get(p).map(|v| v.0) == Some(*h))
            }
            _ => false,
        },
    }
}

impl World {
    pub fn apply_edit(&mut self, defs: &[Def], e: &Edit) {
        if let Edit::DeleteOutput { def, part } = e {
            if *def < defs.len() {
                let parts = self.g.cur_parts(defs, *def);
                match part {
                    None => {
                        for p in parts {
                            self.disk.remove(&p);
                        }
                    }
                    Some(i) => {
                        if let Some(p) = defs[*def].universe.get(*i as usize) {
                            self.disk.remove(p);
                        }
                    }
                }
            }
        }
        self.g.apply(defs, e);
    }

    pub fn next_garbage(&mut self) -> u64 {
        self.garbage_ctr += 1;
        hash2(0xDEAD_BEEF, self.garbage_ctr) | 1
    }
}
