//! Seeded scenario generation (swarm style: every run draws its own configuration).

use crate::model::*;
use crate::rng::Rng;
use std::collections::BTreeMap;

#[derive(Clone, Debug)]
pub struct GenParams {
    pub profile: &'static str,
    pub max_jobs: usize,
    pub max_rounds: usize,
    /// per round, per mille
    pub p_fail: usize,
    pub p_abort: usize,
    pub p_contract: usize,
    pub p_misuse: usize,
    pub p_reconsider: usize,
    /// share (in 24ths) of rename-heavy scenarios
    pub rename_heavy_share: usize,
    /// weights of the graph shapes: random dag, chain-like, layered, motif, forest, hub, ladder, star
    pub shape_w: [usize; 8],
    /// weights Always, Output, Ephemeral
    pub kind_w: [usize; 3],
    pub p_multi: usize,
    pub edge_density: usize, // per mille per candidate pair (scaled by size)
    pub edits_max: usize,
    pub allow_semantic: bool,
    pub force_semantic_noise: bool,
    pub force_fault_free: bool,
    pub absent_bias: bool,
}

impl GenParams {
    pub fn base(profile: &'static str) -> Self {
        GenParams {
            profile,
            max_jobs: 8,
            max_rounds: 5,
            p_fail: 250,
            p_abort: 120,
            p_contract: 0,
            p_misuse: 0,
            p_reconsider: 0,
            rename_heavy_share: 3,
            shape_w: [27, 17, 12, 13, 10, 7, 8, 6],
            kind_w: [2, 4, 4],
            p_multi: 200,
            edge_density: 350,
            edits_max: 3,
            allow_semantic: true,
            force_semantic_noise: false,
            force_fault_free: false,
            absent_bias: false,
        }
    }
}

pub fn params_for(prop: &str, thorough: bool) -> GenParams {
    let mut p = GenParams::base("generic");
    match prop {
        "C01" => {
            p.profile = "C01";
            p.rename_heavy_share = 6;
            p.max_rounds = 6;
        }
        "C02" => {
            p.profile = "C02";
            p.kind_w = [2, 3, 6];
            p.p_abort = 50;
        }
        "C03" => {
            p.profile = "C03";
        }
        "C04" => {
            p.profile = "C04";
            p.rename_heavy_share = 6;
            p.p_fail = 150;
            p.p_abort = 80;
        }
        "C05" => {
            p.profile = "C05";
            p.p_abort = 30;
            p.p_contract = 100;
            p.p_reconsider = 80;
        }
        "C06" => {
            p.profile = "C06";
            p.shape_w = [24, 15, 11, 12, 10, 7, 15, 6];
            p.p_reconsider = 150;
            p.p_fail = 450;
            p.p_abort = 150;
            p.max_rounds = 6;
        }
        "C07" => {
            p.profile = "C07";
            p.rename_heavy_share = 6;
            p.p_fail = 700;
            p.p_abort = 0;
            p.p_contract = 100;
        }
        "C08" => {
            p.profile = "C08";
            p.p_fail = 600;
            p.p_abort = 250;
        }
        "C09" => {
            p.profile = "C09";
            p.p_fail = 0;
            p.p_abort = 0;
            p.max_rounds = 3;
        }
        "C10" => {
            p.profile = "C10";
            p.p_fail = 150;
            p.p_abort = 0;
            p.max_rounds = 3;
        }
        "C11" => {
            p.profile = "C11";
        }
        "C12" => {
            p.profile = "C12";
            p.max_rounds = 4;
        }
        "C13" => {
            p.profile = "C13";
            p.kind_w = [2, 3, 6];
            p.p_fail = 350;
            p.p_contract = 100;
            p.p_abort = 40;
        }
        "C14" => {
            p.profile = "C14";
            p.p_fail = 150;
            p.p_abort = 60;
            p.max_rounds = 4;
        }
        "C15" => {
            p.profile = "C15";
            p.rename_heavy_share = 6;
            p.force_semantic_noise = true;
            p.kind_w = [2, 3, 5];
            p.absent_bias = true;
            p.p_fail = 300;
            p.p_abort = 150;
        }
        "C16" => {
            p.profile = "C16";
            p.p_contract = 400;
            p.kind_w = [2, 3, 6];
            p.p_fail = 100;
            p.p_abort = 150;
        }
        "C17" => {
            p.profile = "C17";
            p.p_fail = 350;
            p.p_contract = 200;
            p.p_reconsider = 80;
        }
        "C18" => {
            p.profile = "C18";
            p.rename_heavy_share = 6;
            p.absent_bias = true;
            p.p_multi = 450;
            p.edits_max = 4;
            p.max_rounds = 6;
        }
        "C20" => {
            p.profile = "C20";
            p.p_misuse = 900;
            p.p_fail = 200;
            p.p_abort = 150;
        }
        _ => {}
    }
    if thorough {
        p.max_jobs += 4;
        p.max_rounds += 2;
    }
    p
}

fn letter(i: usize) -> char {
    (b'a' + i as u8) as char
}

pub fn draw_plan(r: &mut Rng, gp: &GenParams, present_defs: &[usize], defs: &[Def], g: &GraphState, round: usize, bumped: &[usize]) -> EvalPlan {
    let policy = *r.pick(&[
        Policy::Uniform,
        Policy::Uniform,
        Policy::Sequential,
        Policy::Eager,
        Policy::Lifo,
        Policy::LateAcks,
        Policy::PyRunner,
        Policy::PyRunner,
        Policy::Pct,
    ]);
    let workers = *r.pick(&[0u8, 1, 2, 2, 3, 4, 8]);
    let mut plan = EvalPlan::plain(
        policy,
        workers,
        r.next_u64() >> 1,
        r.next_u64() >> 1,
        if r.chance(1, 3) { 0 } else { (r.next_u64() >> 1) | 1 },
    );
    if gp.force_fault_free {
        return plan;
    }
    let n = present_defs.len();
    if n > 0 && r.chance(gp.p_fail / 4, 1000) {
        plan.fail_validated_eph = Some(*r.pick(&[Leave::Garbage, Leave::Untouched, Leave::Removed]));
    }
    if n > 0 && r.chance(gp.p_fail, 1000) {
        let k = 1 + r.below(2.min(n));
        let by_ordinal = r.chance(1, 2);
        for _ in 0..k {
            let leave = *r.pick(&[Leave::Garbage, Leave::Garbage, Leave::Untouched, Leave::Removed]);
            if by_ordinal {
                plan.fail_started.insert(r.below(n.min(5)) as u32, leave);
            } else {
                plan.fail.insert(*r.pick(present_defs), leave);
            }
        }
    }
    // the failure that hides a change: the job whose external input was just edited fails
    let bumped_present: Vec<usize> = bumped.iter().cloned().filter(|d| present_defs.contains(d)).collect();
    if !bumped_present.is_empty() && r.chance(gp.p_fail / 3, 1000) {
        plan.fail.insert(*r.pick(&bumped_present), Leave::Garbage);
    }
    // ... or a job one or two levels below the change fails: the change arrives, its consumer does not
    if !bumped_present.is_empty() && r.chance(gp.p_fail / 3, 1000) {
        let b = *r.pick(&bumped_present);
        let mut below: Vec<usize> = g.downstreams(b);
        for d in below.clone() {
            below.extend(g.downstreams(d));
        }
        below.sort();
        below.dedup();
        if !below.is_empty() {
            plan.fail.insert(*r.pick(&below), *r.pick(&[Leave::Garbage, Leave::Untouched, Leave::Removed]));
        }
    }
    if r.chance(gp.p_abort, 1000) {
        plan.abort = Some(AbortPlan {
            at: r.below(2 * n + 2) as u32,
            fail_running: match r.below(4) {
                0 | 1 => FailRunning::All,
                2 => FailRunning::None,
                _ => FailRunning::Some(r.next_u64()),
            },
            leave: *r.pick(&[Leave::Garbage, Leave::Garbage, Leave::Untouched, Leave::Removed]),
        });
    }
    if round > 0 && r.chance(gp.p_contract, 1000) {
        let ephs: Vec<usize> = present_defs.iter().cloned().filter(|d| g.kind_of(defs, *d) == Kind::Ephemeral).collect();
        if !ephs.is_empty() {
            let d = *r.pick(&ephs);
            plan.contract.insert(d, if r.chance(2, 3) { ContractMode::Semantic } else { ContractMode::Textual });
        }
    }
    if r.chance(gp.p_reconsider, 1000) {
        let k = 1 + r.below(3);
        for _ in 0..k {
            plan.reconsider.push(r.below(3 * n + 3) as u32);
        }
    }
    if r.chance(gp.p_misuse, 1000) {
        let k = 1 + r.below(4);
        for _ in 0..k {
            plan.misuse.push(MisusePlan {
                at: r.below(3 * n + 3) as u32,
                call: r.below(5) as u8,
                pick: r.below(64) as u32,
                before_startup: r.chance(1, 12),
            });
        }
    }
    plan
}

/// A job that failed in the previous evaluation is still broken in this one (one round in three that
/// follows a failure): the same definitions fail again, whatever else the plan draws. Dependants stay
/// upstream-failed over several evaluations while the graph around them is edited.
fn sticky_failures(r: &mut Rng, gp: &GenParams, prev: &EvalPlan, plan: &mut EvalPlan, present: &[usize]) {
    if gp.force_fault_free || prev.fail.is_empty() {
        return;
    }
    if r.chance(1, 3) {
        for (d, leave) in prev.fail.iter() {
            if present.contains(d) {
                plan.fail.insert(*d, *leave);
            }
        }
    }
}

pub fn generate(seed: u64, gp: &GenParams) -> Scenario {
    let root = Rng::new(seed);
    let mut r = root.fork("cfg");
    // ---- configuration
    let cfg = if gp.force_semantic_noise {
        Config { cmp: Cmp::Semantic, names: if r.chance(1, 2) { Names::Parts } else { Names::JobIds }, noise: true }
    } else {
        match r.below(10) {
            0..=3 => Config { cmp: Cmp::Exact, names: Names::JobIds, noise: false },
            4 => Config { cmp: Cmp::Exact, names: Names::Parts, noise: false },
            5 => Config { cmp: Cmp::Semantic, names: Names::JobIds, noise: false },
            6 => Config { cmp: Cmp::Semantic, names: Names::JobIds, noise: true },
            7 => Config { cmp: Cmp::Semantic, names: Names::Parts, noise: false },
            _ => Config { cmp: Cmp::Semantic, names: Names::Parts, noise: true },
        }
    };
    let cfg = if !gp.allow_semantic { Config { cmp: Cmp::Exact, names: Names::JobIds, noise: false } } else { cfg };
    // ---- defs
    let mut r = root.fork("defs");
    // shape: 0 = random dag, 1 = chain-like (deep, Ephemeral-heavy), 2 = layered
    let shape = {
        let mut rs = root.fork("shape");
        let sh = rs.weighted(&gp.shape_w);
        if sh == 5 && !gp.allow_semantic {
            0
        } else {
            sh
        }
    };
    // ---- mode (swarm): one scenario in eight is *rename-heavy*: production naming (input names =
    // consumed outputs), mostly multi-output jobs, and streaks of renames in consecutive rounds
    let rename_heavy = gp.allow_semantic && {
        let mut rm = root.fork("mode");
        rm.chance(gp.rename_heavy_share, 24) || shape == 5
    };
    let cfg = if rename_heavy { Config { names: Names::Parts, ..cfg } } else { cfg };
    // hub (shape 5): a multi-output job M (Output or Ephemeral) with 2..3 consumers that each use ONE
    // of its files and have a private second upstream; M gains and loses outputs between evaluations
    // while single consumers are kept from running by a failure of their private upstream
    let mut hub_kinds: Vec<Kind> = Vec::new();
    let mut hub_edges: Vec<(usize, usize, Vec<u8>)> = Vec::new(); // (down, up, consumed)
    let mut hub_initial: Vec<u8> = Vec::new();
    if shape == 5 {
        let mut rh = root.fork("hub");
        hub_kinds.push(Kind::Always); // S
        hub_kinds.push(if rh.chance(1, 2) { Kind::Output } else { Kind::Ephemeral }); // M
        if rh.chance(1, 2) {
            hub_edges.push((1, 0, Vec::new()));
        }
        hub_initial = if rh.chance(1, 2) { vec![0, 1] } else { vec![rh.below(4) as u8] };
        let k = 2 + rh.below(2);
        for _ in 0..k {
            let u = hub_kinds.len();
            hub_kinds.push(if rh.chance(3, 5) { Kind::Always } else { Kind::Output });
            let d = hub_kinds.len();
            hub_kinds.push(Kind::Output);
            hub_edges.push((d, 1, vec![*rh.pick(&hub_initial)]));
            hub_edges.push((d, u, Vec::new()));
        }
        if rh.chance(1, 2) {
            let d = hub_kinds.len();
            hub_kinds.push(Kind::Output);
            hub_edges.push((d, 1, Vec::new()));
        }
    }

    // forest (shape 4): S (Always, changes), R (root of the tree), a tree of Ephemerals (depth <= 3,
    // fan-out 1..2), an Output consumer under every Ephemeral leaf and under some inner nodes; some
    // consumers also depend on S, so that parts of the tree become required late
    let mut forest_kinds: Vec<Kind> = Vec::new();
    let mut forest_edges: Vec<(usize, usize)> = Vec::new(); // (down, up)
    if shape == 4 {
        let mut rf = root.fork("forest");
        forest_kinds.push(Kind::Always); // S
        forest_kinds.push(if rf.chance(1, 2) { Kind::Always } else { Kind::Output }); // R
        let mut level: Vec<usize> = vec![2];
        forest_kinds.push(Kind::Ephemeral);
        forest_edges.push((2, 1));
        let mut ephs: Vec<usize> = vec![2];
        let mut leaves: Vec<usize> = Vec::new();
        for _depth in 0..2 {
            let mut next = Vec::new();
            for e in level.iter() {
                let kids = if ephs.len() >= 6 { 0 } else { rf.weighted(&[2, 4, 3]) };
                if kids == 0 {
                    leaves.push(*e);
                }
                for _ in 0..kids {
                    let c = forest_kinds.len();
                    forest_kinds.push(Kind::Ephemeral);
                    forest_edges.push((c, *e));
                    ephs.push(c);
                    next.push(c);
                }
            }
            level = next;
        }
        leaves.extend(level.iter().cloned());
        for e in ephs.iter() {
            if leaves.contains(e) || rf.chance(1, 3) {
                let c = forest_kinds.len();
                forest_kinds.push(Kind::Output);
                forest_edges.push((c, *e));
                if rf.chance(1, 2) {
                    forest_edges.push((c, 0));
                }
            }
        }
    }
    // motif (shape 3): S (Always), a chain of 1..3 Ephemerals E.., M (Output, consumes the last E),
    // Z (Output, consumes the last E and S), then random jobs hanging below M / Z: the shared
    // Ephemeral becomes required late (when S changes) after M was already skipped
    let motif_chain = 1 + r.below(3);
    let motif_core = motif_chain + 3;
    // size class: one scenario in twenty is a medium-sized graph (up to three times the usual
    // bound), so that several motifs can interact in one evaluation
    let max_jobs = {
        let mut rs = root.fork("sizeclass");
        if rs.chance(1, 20) {
            (gp.max_jobs * 3).min(26)
        } else {
            gp.max_jobs
        }
    };
    // ladder (shape 6): an Always root X, a chain C1..Ck of Outputs below it, short side branches off the
    // chain, and 1..3 Ephemerals that each feed TWO jobs at different depths (the deeper one usually the
    // end of the chain): a failure travelling down the chain meets validated, still undecided
    // Ephemerals from several sides in the same wave
    let mut ladder_kinds: Vec<Kind> = Vec::new();
    let mut ladder_edges: Vec<(usize, usize)> = Vec::new(); // (down, up)
    if shape == 6 {
        let mut rl = root.fork("ladder");
        // X: mostly an Always job; sometimes an Ephemeral or Output (then the failure that travels down
        // the chain is X's own, late one)
        ladder_kinds.push([Kind::Always, Kind::Ephemeral, Kind::Output][rl.weighted(&[6, 3, 1])]); // X
        let n_eph = 1 + rl.below(3);
        for _ in 0..n_eph {
            ladder_kinds.push(Kind::Ephemeral);
        }
        let k = 3 + rl.below(3);
        let mut level_nodes: Vec<Vec<usize>> = Vec::new(); // per depth (1-based chain depth)
        let mut prev = 0usize;
        let mut chain: Vec<usize> = Vec::new();
        for depth in 0..k {
            let c = ladder_kinds.len();
            ladder_kinds.push(if depth + 1 < k && rl.chance(1, 6) { Kind::Ephemeral } else { Kind::Output });
            ladder_edges.push((c, prev));
            chain.push(c);
            level_nodes.push(vec![c]);
            prev = c;
        }
        // side branches: A below chain node, maybe A' below A
        for depth in 0..k.saturating_sub(1) {
            if rl.chance(1, 2) {
                let a = ladder_kinds.len();
                ladder_kinds.push(Kind::Output);
                ladder_edges.push((a, chain[depth]));
                if depth + 1 < level_nodes.len() {
                    level_nodes[depth + 1].push(a);
                }
                if rl.chance(1, 2) {
                    let a2 = ladder_kinds.len();
                    ladder_kinds.push(if rl.chance(1, 4) { Kind::Always } else { Kind::Output });
                    ladder_edges.push((a2, a));
                    if depth + 2 < level_nodes.len() {
                        level_nodes[depth + 2].push(a2);
                    }
                }
            }
        }
        let last = *chain.last().unwrap();
        if rl.chance(1, 3) {
            // the root feeds the end of the chain directly, too
            ladder_edges.push((last, 0));
        }
        for e in 1..=n_eph {
            // upper consumer: depth 1..k-2; lower consumer: mostly the end of the chain
            let du = rl.below(k.saturating_sub(2).max(1));
            let upper = *rl.pick(&level_nodes[du]);
            let lower = if rl.chance(3, 4) {
                last
            } else {
                let dl = du + 1 + rl.below(k - du - 1);
                *rl.pick(&level_nodes[dl.min(k - 1)])
            };
            ladder_edges.push((upper, e));
            if lower != upper {
                ladder_edges.push((lower, e));
            }
        }
    }
    // star (shape 7): a centre job with 3..5 upstreams and/or 3..5 downstreams of mixed kinds; a root
    // Always job above some of the upstreams, a private Always upstream for some of the downstreams
    let mut star_kinds: Vec<Kind> = Vec::new();
    let mut star_edges: Vec<(usize, usize)> = Vec::new(); // (down, up)
    if shape == 7 {
        let mut rs = root.fork("star");
        let mix = |rs: &mut Rng| [Kind::Always, Kind::Output, Kind::Ephemeral][rs.weighted(&[2, 4, 4])];
        star_kinds.push(Kind::Always); // root
        let fan_in = if rs.chance(2, 3) { 3 + rs.below(3) } else { 0 };
        let fan_out = if fan_in == 0 || rs.chance(1, 2) { 3 + rs.below(3) } else { 0 };
        let mut ups = Vec::new();
        for _ in 0..fan_in {
            let u = star_kinds.len();
            star_kinds.push(mix(&mut rs));
            if star_kinds[u] != Kind::Always && rs.chance(1, 2) {
                star_edges.push((u, 0));
            }
            ups.push(u);
        }
        // private Always upstreams of the downstreams must come before the centre's downstreams
        let n_priv = if fan_out > 0 { rs.below(3) } else { 0 };
        let mut privs = Vec::new();
        for _ in 0..n_priv {
            privs.push(star_kinds.len());
            star_kinds.push(Kind::Always);
        }
        let c = star_kinds.len();
        star_kinds.push([Kind::Output, Kind::Ephemeral, Kind::Always][rs.weighted(&[4, 4, 1])]);
        for u in ups.iter() {
            star_edges.push((c, *u));
        }
        if fan_in == 0 {
            star_edges.push((c, 0));
        }
        for k in 0..fan_out {
            let d = star_kinds.len();
            star_kinds.push(mix(&mut rs));
            star_edges.push((d, c));
            if k < privs.len() {
                star_edges.push((d, privs[k]));
            }
            if star_kinds[d] == Kind::Ephemeral {
                // an Ephemeral needs a consumer to matter
                let z = star_kinds.len();
                star_kinds.push(Kind::Output);
                star_edges.push((z, d));
            }
        }
    }
    let layer_w = 2 + r.weighted(&[4, 4, 2, 1]);
    let n_defs = match shape {
        0 => 1 + r.below(max_jobs),
        2 => (layer_w * (2 + r.below(2)) + r.below(3)).min(16).max(3),
        3 => motif_core + r.below(max_jobs.saturating_sub(motif_core - 1).max(1)),
        4 => forest_kinds.len() + r.below(3),
        5 => hub_kinds.len() + r.below(3),
        6 => ladder_kinds.len() + r.below(2),
        7 => star_kinds.len() + r.below(2),
        _ => 3 + r.below(max_jobs.saturating_sub(2).max(1)),
    };
    let mut defs = Vec::new();
    for i in 0..n_defs {
        let kind_w = match shape {
            1 => {
                if i == n_defs - 1 {
                    [0, 1, 0]
                } else if i == 0 {
                    [3, 2, 3]
                } else {
                    [1, 2, 7]
                }
            }
            2 => {
                if i < layer_w {
                    [4, 2, 2]
                } else if i + layer_w >= n_defs {
                    [0, 1, 0]
                } else {
                    [0, 3, 5]
                }
            }
            3 => {
                if i == 0 {
                    [1, 0, 0]
                } else if i <= motif_chain {
                    [0, 0, 1]
                } else if i < motif_core {
                    [0, 1, 0]
                } else {
                    [2, 4, 3]
                }
            }
            7 => match star_kinds.get(i) {
                Some(Kind::Always) => [1, 0, 0],
                Some(Kind::Output) => [0, 1, 0],
                Some(Kind::Ephemeral) => [0, 0, 1],
                None => [2, 4, 3],
            },
            6 => match ladder_kinds.get(i) {
                Some(Kind::Always) => [1, 0, 0],
                Some(Kind::Output) => [0, 1, 0],
                Some(Kind::Ephemeral) => [0, 0, 1],
                None => [2, 4, 3],
            },
            5 => match hub_kinds.get(i) {
                Some(Kind::Always) => [1, 0, 0],
                Some(Kind::Output) => [0, 1, 0],
                Some(Kind::Ephemeral) => [0, 0, 1],
                None => [2, 4, 3],
            },
            4 => match forest_kinds.get(i) {
                Some(Kind::Always) => [1, 0, 0],
                Some(Kind::Output) => [0, 1, 0],
                Some(Kind::Ephemeral) => [0, 0, 1],
                None => [2, 4, 3],
            },
            _ => gp.kind_w,
        };
        let kind = [Kind::Always, Kind::Output, Kind::Ephemeral][r.weighted(&kind_w)];
        let hub_m = shape == 5 && i == 1;
        let multi = hub_m || (kind != Kind::Always && !(shape == 5 && i < hub_kinds.len()) && r.chance(if rename_heavy { 750 } else { gp.p_multi }, 1000));
        let universe: Vec<String> = if multi {
            let k = if hub_m { 4 } else if rename_heavy { 3 + r.below(2) } else { 2 + r.below(2) };
            (0..k).map(|p| format!("j{:02}{}", i, letter(p))).collect()
        } else {
            vec![format!("j{:02}", i)]
        };
        let constant: Vec<bool> = universe.iter().map(|_| r.chance(1, 10)).collect();
        let ignores: Vec<Vec<usize>> = universe
            .iter()
            .map(|_| (0..i).filter(|_| r.chance(1, 5)).collect())
            .collect();
        defs.push(Def { universe, kind, constant, ignores });
    }
    // ---- rounds
    let mut r = root.fork("rounds");
    let n_rounds = 1 + r.below(gp.max_rounds);
    let mut rounds: Vec<Round> = Vec::new();
    let mut g = GraphState::default();
    let mut undo_prev: Vec<(u8, Edit)> = Vec::new();
    for round in 0..n_rounds {
        let mut edits = Vec::new();
        if round == 0 {
            for d in 0..n_defs {
                if r.chance(if gp.absent_bias { 7 } else { 9 }, 10) {
                    edits.push(Edit::AddJob { def: d });
                }
                if defs[d].universe.len() > 1 {
                    let parts = if shape == 5 && d == 1 {
                        hub_initial.clone()
                    } else if rename_heavy {
                        // start small, so that there is room to grow
                        let u = defs[d].universe.len();
                        let a = r.below(u) as u8;
                        let b = r.below(u) as u8;
                        let mut v = vec![a];
                        if b != a && r.chance(1, 2) {
                            v.push(b);
                        }
                        v.sort();
                        v
                    } else {
                        draw_parts(&mut r, defs[d].universe.len())
                    };
                    edits.push(Edit::SetParts { def: d, parts });
                }
            }
            // edges; density shrinks with size so big graphs do not become cliques
            let dens = (gp.edge_density * 4 / (n_defs + 3)).clamp(80, 600);
            for down in 1..n_defs {
                for up in 0..down {
                    let p = match shape {
                        1 => {
                            if up + 1 == down {
                                850
                            } else {
                                dens / 4
                            }
                        }
                        2 => {
                            // previous layer only
                            let (ld, lu) = (down / layer_w, up / layer_w);
                            if ld == lu + 1 {
                                550
                            } else {
                                0
                            }
                        }
                        3 => {
                            let m = motif_chain + 1; // M
                            let z = motif_chain + 2; // Z
                            if (1..=motif_chain).contains(&down) {
                                // the ephemeral chain E1 <- E2 <- ...
                                if up + 1 == down && up >= 1 {
                                    1000
                                } else {
                                    0
                                }
                            } else if down == m {
                                if up == motif_chain {
                                    1000
                                } else {
                                    0
                                }
                            } else if down == z {
                                if up == motif_chain || up == 0 {
                                    1000
                                } else {
                                    0
                                }
                            } else if up == m || up == z {
                                450
                            } else if up >= motif_core {
                                dens
                            } else {
                                dens / 5
                            }
                        }
                        7 => {
                            if star_edges.contains(&(down, up)) {
                                1000
                            } else if down >= star_kinds.len() {
                                dens
                            } else {
                                0
                            }
                        }
                        6 => {
                            if ladder_edges.contains(&(down, up)) {
                                1000
                            } else if down >= ladder_kinds.len() {
                                dens
                            } else {
                                0
                            }
                        }
                        5 => {
                            if hub_edges.iter().any(|(d, u, _)| *d == down && *u == up) {
                                1000
                            } else if down >= hub_kinds.len() {
                                dens
                            } else {
                                0
                            }
                        }
                        4 => {
                            if forest_edges.contains(&(down, up)) {
                                1000
                            } else if down >= forest_kinds.len() {
                                dens
                            } else {
                                0
                            }
                        }
                        _ => dens,
                    };
                    if r.chance(p, 1000) {
                        let consumed = if let Some((_, _, c)) = hub_edges.iter().find(|(d, u, _)| shape == 5 && *d == down && *u == up) {
                            c.clone()
                        } else if rename_heavy && defs[up].universe.len() > 1 && r.chance(3, 4) {
                            // depends on one file of the upstream: the input list survives renames that keep it
                            vec![r.below(defs[up].universe.len()) as u8]
                        } else {
                            draw_consumed(&mut r, &cfg, defs[up].universe.len())
                        };
                        edits.push(Edit::AddEdge { down, up, consumed });
                    }
                }
            }
        } else {
            let k = if r.chance(1, 4) { r.below(2 * gp.edits_max + 2) } else { r.below(gp.edits_max + 1) };
            let mut undo_next: Vec<Edit> = Vec::new();
            for _ in 0..k {
                // one edit in six takes back an edit of the previous round (try something, revert it)
                let e = if !undo_prev.is_empty() && r.chance(1, 6) {
                    Some(undo_prev[r.below(undo_prev.len())].1.clone())
                } else {
                    draw_edit(&mut r, gp, &cfg, &defs, &g)
                };
                if let Some(e) = e {
                    if let Some(inv) = inverse_edit(&defs, &g, &e) {
                        undo_next.push(inv);
                    }
                    g.apply(&defs, &e);
                    edits.push(e);
                }
            }
            // (edits of the last two rounds can be taken back: change, leave it for a round, change back)
            undo_prev.retain(|(age, _)| *age == 0);
            for (age, _) in undo_prev.iter_mut() {
                *age = 1;
            }
            undo_prev.extend(undo_next.into_iter().map(|e| (0u8, e)));
            if rename_heavy {
                for d in 0..n_defs {
                    if defs[d].universe.len() > 1 && r.chance(1, 3) {
                        // mostly: gain one output, sometimes lose one, sometimes anything
                        let u = defs[d].universe.len();
                        let cur: Vec<u8> = g.parts.get(&d).cloned().unwrap_or_else(|| vec![0]);
                        let missing: Vec<u8> = (0..u as u8).filter(|i| !cur.contains(i)).collect();
                        let parts = match r.below(20) {
                            0..=11 if !missing.is_empty() => {
                                let mut v = cur.clone();
                                v.push(*r.pick(&missing));
                                v.sort();
                                v
                            }
                            12..=16 if cur.len() > 1 => {
                                let mut v = cur.clone();
                                v.remove(r.below(v.len()));
                                v
                            }
                            _ => draw_parts(&mut r, u),
                        };
                        let e = Edit::SetParts { def: d, parts };
                        g.apply(&defs, &e);
                        edits.push(e);
                    }
                }
            }
        }
        if round == 0 {
            for e in edits.iter() {
                g.apply(&defs, e);
            }
        }
        let present: Vec<usize> = g.present.iter().cloned().collect();
        let bumped: Vec<usize> = edits.iter().filter_map(|e| if let Edit::BumpExt { def } | Edit::RevertExt { def } = e { Some(*def) } else { None }).collect();
        let mut plan = draw_plan(&mut r, gp, &present, &defs, &g, round, &bumped);
        if let Some(prev) = rounds.last() {
            sticky_failures(&mut r, gp, &prev.plan, &mut plan, &present);
        }
        rounds.push(Round { edits, plan });
    }
    let mut sc = Scenario { seed, profile: gp.profile.to_string(), cfg, defs, rounds };
    if gp.allow_semantic {
        let mut rm = root.fork("merge");
        if rm.chance(1, if sc.cfg.names == Names::Parts { 8 } else { 40 }) {
            merge_two_jobs(&mut sc, &mut rm);
        }
    }
    sc
}

/// Two single-file jobs X < Y of the same kind become ONE job that produces both files (and, half of
/// the time, two jobs again later): definition X gets Y's file name as a second part; at round r Y is
/// removed, X's parts become both, Y's consumers depend on X instead (consuming Y's file). Under the
/// production naming the consumers' input lists do not change, so a consumer of both then has records
/// under two old names of the one upstream it has now.
fn merge_two_jobs(sc: &mut Scenario, r: &mut Rng) {
    if sc.rounds.len() < 2 {
        return;
    }
    let at = 1 + r.below(sc.rounds.len() - 1);
    // graph as it is before the edits of round `at`
    let mut g = GraphState::default();
    for round in sc.rounds.iter().take(at) {
        for e in round.edits.iter() {
            g.apply(&sc.defs, e);
        }
    }
    let file_single = |d: usize| sc.defs[d].universe.len() == 1 && g.present.contains(&d) && g.kind_of(&sc.defs, d) != Kind::Always;
    let mut pairs: Vec<(usize, usize, usize)> = Vec::new(); // (shared consumers, x, y)
    let n = sc.defs.len();
    for x in 0..n {
        for y in x + 1..n {
            if file_single(x) && file_single(y) && g.kind_of(&sc.defs, x) == g.kind_of(&sc.defs, y) && !g.edges.contains_key(&(y, x)) {
                let dx = g.downstreams(x);
                let shared = g.downstreams(y).iter().filter(|d| dx.contains(d)).count();
                pairs.push((shared, x, y));
            }
        }
    }
    if pairs.is_empty() {
        return;
    }
    // prefer a pair with a common consumer
    pairs.sort();
    let best = pairs.last().unwrap().0;
    let cands: Vec<(usize, usize, usize)> = pairs.into_iter().filter(|p| p.0 == best || r.chance(1, 6)).collect();
    let (_, x, y) = *r.pick(&cands);
    // definition x can now also produce y's file (universe stays sorted: x < y and names are j<index>)
    let yname = sc.defs[y].universe[0].clone();
    if sc.defs[x].universe.contains(&yname) || sc.defs[x].universe[0] >= yname {
        return;
    }
    // a job's behaviour is a function of the FILES it reads, whoever writes them: "ignores the inputs
    // coming from definition u" is keyed by definition, so nobody may ignore x or y once a file moves
    // from the one to the other
    for d in sc.defs.iter_mut() {
        for ig in d.ignores.iter_mut() {
            ig.retain(|u| *u != x && *u != y);
        }
    }
    sc.defs[x].universe.push(yname);
    let yc = sc.defs[y].constant[0];
    sc.defs[x].constant.push(yc);
    let yi = sc.defs[y].ignores[0].clone();
    sc.defs[x].ignores.push(yi);
    let mut edits = vec![Edit::RemoveJob { def: y }, Edit::SetParts { def: x, parts: vec![0, 1] }];
    let mut new_edges: Vec<usize> = Vec::new();
    for d in g.downstreams(y) {
        if g.edges.contains_key(&(d, x)) {
            // consumer of both: its edge to x now covers both files
            edits.push(Edit::AddEdge { down: d, up: x, consumed: Vec::new() });
        } else {
            // (under the job-id naming every dependency consumes all files of its upstream: the engine is
            // not told which ones, so a narrower subset could change without anybody being able to notice)
            edits.push(Edit::AddEdge { down: d, up: x, consumed: if sc.cfg.names == Names::Parts { vec![1] } else { Vec::new() } });
            new_edges.push(d);
        }
    }
    for u in g.upstreams(y) {
        if u < x && !g.edges.contains_key(&(x, u)) {
            edits.push(Edit::AddEdge { down: x, up: u, consumed: Vec::new() });
        }
    }
    sc.rounds[at].edits.extend(edits);
    // ... and apart again
    if at + 1 < sc.rounds.len() && r.chance(1, 2) {
        let back = at + 1 + r.below(sc.rounds.len() - at - 1);
        let mut e2 = vec![Edit::SetParts { def: x, parts: vec![0] }, Edit::AddJob { def: y }];
        for d in new_edges {
            e2.push(Edit::RemoveEdge { down: d, up: x });
        }
        sc.rounds[back].edits.extend(e2);
    }
}

fn draw_parts(r: &mut Rng, u: usize) -> Vec<u8> {
    loop {
        let v: Vec<u8> = (0..u as u8).filter(|_| r.chance(2, 3)).collect();
        if !v.is_empty() {
            return v;
        }
    }
}

fn draw_consumed(r: &mut Rng, cfg: &Config, u: usize) -> Vec<u8> {
    if cfg.names == Names::JobIds || u == 1 || r.chance(1, 2) {
        Vec::new() // everything
    } else {
        draw_parts(r, u)
    }
}

fn draw_edit(r: &mut Rng, gp: &GenParams, cfg: &Config, defs: &[Def], g: &GraphState) -> Option<Edit> {
    let n = defs.len();
    let present: Vec<usize> = g.present.iter().cloned().collect();
    let absent: Vec<usize> = (0..n).filter(|d| !g.present.contains(d)).collect();
    let w_absent = if gp.absent_bias { 4 } else { 2 };
    let choice = r.weighted(&[w_absent, w_absent, 2, 2, 4, 3, if gp.p_multi > 300 { 4 } else { 2 }, 1, 2, 1]);
    match choice {
        0 => {
            if absent.is_empty() {
                None
            } else {
                Some(Edit::AddJob { def: *r.pick(&absent) })
            }
        }
        1 => {
            if present.is_empty() {
                None
            } else {
                Some(Edit::RemoveJob { def: *r.pick(&present) })
            }
        }
        2 => {
            if n < 2 {
                return None;
            }
            let down = 1 + r.below(n - 1);
            let up = r.below(down);
            Some(Edit::AddEdge { down, up, consumed: draw_consumed(r, cfg, defs[up].universe.len()) })
        }
        3 => {
            let keys: Vec<(usize, usize)> = g.edges.keys().cloned().collect();
            if keys.is_empty() {
                None
            } else {
                let (down, up) = *r.pick(&keys);
                Some(Edit::RemoveEdge { down, up })
            }
        }
        4 => {
            let always: Vec<usize> = (0..n).filter(|d| g.kind_of(defs, *d) == Kind::Always).collect();
            if always.is_empty() {
                None
            } else {
                Some(Edit::BumpExt { def: *r.pick(&always) })
            }
        }
        5 => {
            let outs: Vec<usize> = present.iter().cloned().filter(|d| g.kind_of(defs, *d) == Kind::Output).collect();
            if outs.is_empty() {
                None
            } else {
                let d = *r.pick(&outs);
                let part = if r.chance(1, 2) { None } else { Some(r.below(defs[d].universe.len()) as u8) };
                Some(Edit::DeleteOutput { def: d, part })
            }
        }
        6 => {
            let multi: Vec<usize> = (0..n).filter(|d| defs[*d].universe.len() > 1).collect();
            if multi.is_empty() {
                None
            } else {
                let d = *r.pick(&multi);
                Some(Edit::SetParts { def: d, parts: draw_parts(r, defs[d].universe.len()) })
            }
        }
        8 => {
            let bumped: Vec<usize> = (0..n).filter(|d| g.kind_of(defs, *d) == Kind::Always && g.ext.get(d).copied().unwrap_or(0) > 0).collect();
            if bumped.is_empty() {
                None
            } else {
                Some(Edit::RevertExt { def: *r.pick(&bumped) })
            }
        }
        9 => {
            // the job is re-declared with the other file kind (a FileGeneratingJob becomes a
            // TempFileGeneratingJob or back); same id, same behaviour
            let cands: Vec<usize> = (0..n).filter(|d| g.kind_of(defs, *d) != Kind::Always).collect();
            if cands.is_empty() {
                return None;
            }
            let d = *r.pick(&cands);
            let to = if g.kind_of(defs, d) == Kind::Output { Kind::Ephemeral } else { Kind::Output };
            Some(Edit::SetKind { def: d, kind: to })
        }
        _ => None, // pure re-evaluation
    }
}

/// the edit that takes `e` back, given the graph state before `e` is applied
fn inverse_edit(defs: &[Def], g: &GraphState, e: &Edit) -> Option<Edit> {
    match e {
        Edit::AddJob { def } => {
            if g.present.contains(def) {
                None
            } else {
                Some(Edit::RemoveJob { def: *def })
            }
        }
        Edit::RemoveJob { def } => {
            if g.present.contains(def) {
                Some(Edit::AddJob { def: *def })
            } else {
                None
            }
        }
        Edit::AddEdge { down, up, .. } => match g.edges.get(&(*down, *up)) {
            None => Some(Edit::RemoveEdge { down: *down, up: *up }),
            Some(c) => Some(Edit::AddEdge { down: *down, up: *up, consumed: c.clone() }),
        },
        Edit::RemoveEdge { down, up } => g.edges.get(&(*down, *up)).map(|c| Edit::AddEdge { down: *down, up: *up, consumed: c.clone() }),
        Edit::BumpExt { def } => Some(Edit::RevertExt { def: *def }),
        Edit::RevertExt { def } => Some(Edit::BumpExt { def: *def }),
        Edit::DeleteOutput { .. } => None,
        Edit::SetParts { def, .. } => g.parts.get(def).map(|p| Edit::SetParts { def: *def, parts: p.clone() }),
        Edit::SetKind { def, .. } => {
            if *def < defs.len() {
                Some(Edit::SetKind { def: *def, kind: g.kind_of(defs, *def) })
            } else {
                None
            }
        }
    }
}

/// all plans of a scenario are fault free
pub fn fault_free(sc: &Scenario) -> bool {
    sc.rounds.iter().all(|r| r.plan.fault_free())
}

pub fn dummy() -> BTreeMap<usize, usize> {
    BTreeMap::new()
}

/// A seeded variant of a corpus scenario: graph, behaviours and edit script are kept (plus a few
/// extra random edits), every schedule, seed and fault plan is re-drawn for the profile.
pub fn corpus_variant(base: &Scenario, seed: u64, gp: &GenParams) -> Scenario {
    let root = Rng::new(seed);
    let mut r = root.fork("corpus");
    let mut sc = base.clone();
    sc.seed = seed;
    sc.profile = format!("{}+corpus", gp.profile);
    if gp.force_semantic_noise {
        if sc.cfg.cmp == Cmp::Exact {
            sc.cfg.cmp = Cmp::Semantic;
        }
        sc.cfg.noise = true;
    } else if sc.cfg.cmp == Cmp::Semantic && r.chance(1, 3) {
        sc.cfg.noise = !sc.cfg.noise;
    } else if sc.cfg.cmp == Cmp::Exact && sc.cfg.names == Names::JobIds && r.chance(1, 4) {
        sc.cfg.cmp = Cmp::Semantic;
        sc.cfg.noise = r.chance(1, 2);
    }
    // sometimes repeat or drop trailing rounds
    if sc.rounds.len() > 2 && r.chance(1, 5) {
        let keep = 2 + r.below(sc.rounds.len() - 1);
        sc.rounds.truncate(keep.min(sc.rounds.len()));
    }
    if r.chance(1, 4) {
        let plan = EvalPlan::plain(Policy::Uniform, 2, 0, 0, 0);
        sc.rounds.push(Round { edits: Vec::new(), plan });
    }
    let mut g = GraphState::default();
    let n_rounds = sc.rounds.len();
    for ri in 0..n_rounds {
        for e in sc.rounds[ri].edits.clone().iter() {
            g.apply(&sc.defs, e);
        }
        if ri > 0 && r.chance(1, 3) {
            let k = 1 + r.below(2);
            for _ in 0..k {
                if let Some(e) = draw_edit(&mut r, gp, &sc.cfg, &sc.defs, &g) {
                    g.apply(&sc.defs, &e);
                    sc.rounds[ri].edits.push(e);
                }
            }
        }
        let present: Vec<usize> = g.present.iter().cloned().collect();
        let bumped: Vec<usize> = sc.rounds[ri].edits.iter().filter_map(|e| if let Edit::BumpExt { def } | Edit::RevertExt { def } = e { Some(*def) } else { None }).collect();
        sc.rounds[ri].plan = draw_plan(&mut r, gp, &present, &sc.defs, &g, ri, &bumped);
        if ri > 0 {
            let prev = sc.rounds[ri - 1].plan.clone();
            sticky_failures(&mut r, gp, &prev, &mut sc.rounds[ri].plan, &present);
        }
    }
    sc
}

/// Coverage feedback: a mutant of a scenario that was the first to show some joint engine state.
/// Graph, behaviours and edit script are kept; every schedule, seed and fault plan is re-drawn; on top
/// of that a few structural mutations (a new consumer, a new or removed dependency, a file job
/// re-declared with the other kind, an extra round).
pub fn mutate(base: &Scenario, seed: u64, gp: &GenParams) -> Scenario {
    let root = Rng::new(seed);
    let mut r = root.fork("mutate");
    let mut sc = base.clone();
    // structural mutations on the initial graph (round 0)
    let n_mut = r.weighted(&[3, 4, 2, 1]);
    for _ in 0..n_mut {
        let n = sc.defs.len();
        match r.below(6) {
            0 if n < 26 => {
                // a new job at the end, consuming one or two existing jobs
                let kind = [Kind::Always, Kind::Output, Kind::Ephemeral][r.weighted(&[1, 4, 3])];
                let i = n;
                sc.defs.push(Def { universe: vec![format!("j{:02}", i)], kind, constant: vec![false], ignores: vec![Vec::new()] });
                sc.rounds[0].edits.push(Edit::AddJob { def: i });
                let k = 1 + r.below(2);
                for _ in 0..k {
                    let up = r.below(n);
                    sc.rounds[0].edits.push(Edit::AddEdge { down: i, up, consumed: Vec::new() });
                }
            }
            1 if n >= 2 => {
                let down = 1 + r.below(n - 1);
                let up = r.below(down);
                sc.rounds[0].edits.push(Edit::AddEdge { down, up, consumed: Vec::new() });
            }
            2 => {
                let edges: Vec<(usize, usize)> = sc.rounds[0].edits.iter().filter_map(|e| if let Edit::AddEdge { down, up, .. } = e { Some((*down, *up)) } else { None }).collect();
                if !edges.is_empty() {
                    let (down, up) = *r.pick(&edges);
                    sc.rounds[0].edits.push(Edit::RemoveEdge { down, up });
                }
            }
            3 => {
                let cands: Vec<usize> = (0..n).filter(|d| sc.defs[*d].kind != Kind::Always).collect();
                if !cands.is_empty() {
                    let d = *r.pick(&cands);
                    sc.defs[d].kind = if sc.defs[d].kind == Kind::Output { Kind::Ephemeral } else { Kind::Output };
                }
            }
            4 => {
                // one more evaluation at the end (its plan is drawn below)
                if sc.rounds.len() < gp.max_rounds + 2 {
                    let plan = EvalPlan::plain(Policy::Uniform, 2, 0, 0, 0);
                    sc.rounds.push(Round { edits: Vec::new(), plan });
                }
            }
            _ => {}
        }
    }
    // re-draw every plan (and add a few random edits to later rounds), as for corpus scenarios
    let mut out = corpus_variant(&sc, seed, gp);
    out.profile = format!("{}+feedback", gp.profile);
    out
}
