//! C19: behaviour must not depend on size or depth. Generated families x sizes x cascades x
//! completion orders, each case in a child process (8 MiB stack thread, wall-clock cap) so
//! that a stack overflow or a runaway case cannot take the check down.
//!
//! The lean driver here does no per-step snapshots (the generic driver is O(n) per step);
//! the oracle is: no internal error / panic / child death, and the set of started jobs and
//! final dispositions equal the O(n) reference model.

use crate::driver::{normalise, CallRes, Eng};
use crate::model::*;
use crate::oracle::reference;
use crate::rng::{hash2, Rng};
use crate::world::*;
use pypipegraph2::verif_seam as vs;
use pypipegraph2::{JobKind, PPGEvaluator};
use serde_json::json;
use std::cell::RefCell;
use std::collections::{BTreeMap, BTreeSet};
use std::rc::Rc;
use std::time::Instant;

pub const FAMILIES: [&str; 12] = [
    "dense-layers-wide",
    "dense-layers-deep",
    "deep-chain-short-sibling",
    "skipped-chain-behind-ephemeral",
    "chain-output",
    "chain-ephemeral-leaf-output",
    "chain-alternating",
    "chain-always-root",
    "layered",
    "fan-in",
    "fan-out",
    "chain-always-root-ephemerals",
];
pub const CASCADES: [&str; 9] = [
    "late-fail-through-skipped",
    "first-build",
    "up-to-date",
    "invalidate-root-unchanged",
    "invalidate-root-changed",
    "invalidate-leaf",
    "fail-root",
    "abort-start",
    "abort-middle",
];
pub const ORDERS: [&str; 3] = ["fifo", "wide", "lifo"];
/// wall-clock cap for the cases of the family dense-layers-deep (unchanged engine: < 1 s each)
pub const DEEP_CAP_S: u64 = 60;

fn def(name: String, kind: Kind) -> Def {
    Def { universe: vec![name], kind, constant: vec![false], ignores: vec![vec![]] }
}

/// returns (defs, graph, root def, leaf def)
fn build_family(family: &str, n: usize) -> (Vec<Def>, GraphState, usize, usize) {
    let mut defs = Vec::new();
    let mut g = GraphState::default();
    let mut add = |defs: &mut Vec<Def>, g: &mut GraphState, kind: Kind| -> usize {
        let i = defs.len();
        defs.push(def(format!("n{:06}", i), kind));
        g.present.insert(i);
        g.parts.insert(i, vec![0]);
        g.ext.insert(i, 0);
        i
    };
    match family {
        "chain-output" | "chain-ephemeral-leaf-output" | "chain-alternating" | "chain-always-root" | "chain-always-root-ephemerals" => {
            for i in 0..n {
                let kind = match family {
                    "chain-output" => Kind::Output,
                    "chain-ephemeral-leaf-output" => {
                        if i == n - 1 {
                            Kind::Output
                        } else {
                            Kind::Ephemeral
                        }
                    }
                    "chain-alternating" => {
                        if i % 2 == 0 || i == n - 1 {
                            Kind::Output
                        } else {
                            Kind::Ephemeral
                        }
                    }
                    "chain-always-root" => {
                        if i == 0 {
                            Kind::Always
                        } else {
                            Kind::Output
                        }
                    }
                    _ => {
                        if i == 0 {
                            Kind::Always
                        } else if i == n - 1 {
                            Kind::Output
                        } else {
                            Kind::Ephemeral
                        }
                    }
                };
                let j = add(&mut defs, &mut g, kind);
                if j > 0 {
                    g.edges.insert((j, j - 1), vec![]);
                }
            }
            (defs, g, 0, n - 1)
        }
        "deep-chain-short-sibling" => {
            // C0 <- C1 <- ... <- C(n-3) <- D -> X : a leaf with inputs at very unequal depths (all Outputs)
            let x = add(&mut defs, &mut g, Kind::Output);
            let mut prev = add(&mut defs, &mut g, Kind::Output);
            let first = prev;
            for _ in 0..n.saturating_sub(3).max(1) {
                let j = add(&mut defs, &mut g, Kind::Output);
                g.edges.insert((j, prev), vec![]);
                prev = j;
            }
            let d = add(&mut defs, &mut g, Kind::Output);
            g.edges.insert((d, prev), vec![]);
            g.edges.insert((d, x), vec![]);
            (defs, g, first, d)
        }
        "skipped-chain-behind-ephemeral" => {
            // 0: Y (Always)   1: E (Ephemeral root)   2..n-2: chain of Outputs below E   n-1: X (Output) <- E, Y
            let y = add(&mut defs, &mut g, Kind::Always);
            let e = add(&mut defs, &mut g, Kind::Ephemeral);
            let mut prev = e;
            for _ in 0..n.saturating_sub(3).max(1) {
                let j = add(&mut defs, &mut g, Kind::Output);
                g.edges.insert((j, prev), vec![]);
                prev = j;
            }
            let x = add(&mut defs, &mut g, Kind::Output);
            g.edges.insert((x, e), vec![]);
            g.edges.insert((x, y), vec![]);
            (defs, g, y, x)
        }
        "layered" => {
            // sqrt(n)-ish layers of width w, each job depends on 2 jobs of the previous layer
            let w = ((n as f64).sqrt() as usize).max(2);
            let layers = (n / w).max(2);
            let mut prev: Vec<usize> = Vec::new();
            let mut first = 0;
            let mut last = 0;
            for l in 0..layers {
                let mut cur = Vec::new();
                for i in 0..w {
                    let kind = if l == 0 {
                        Kind::Always
                    } else if l == layers - 1 || i % 2 == 0 {
                        Kind::Output
                    } else {
                        Kind::Ephemeral
                    };
                    let j = add(&mut defs, &mut g, kind);
                    if l == 0 && i == 0 {
                        first = j;
                    }
                    last = j;
                    if !prev.is_empty() {
                        g.edges.insert((j, prev[i % prev.len()]), vec![]);
                        g.edges.insert((j, prev[(i + 1) % prev.len()]), vec![]);
                    }
                    cur.push(j);
                }
                prev = cur;
            }
            (defs, g, first, last)
        }
        "dense-layers-wide" | "dense-layers-deep" => {
            // an Always root, then layers in which every job depends on EVERY job of the previous layer.
            // wide: three layers of up to 500 jobs - the number of dependencies between two layers (w*w)
            //       exceeds the number of jobs many times over: signal queues and cascades scale with
            //       edges, not with jobs.
            // deep: up to 40 layers of 12 jobs, a third of the inner ones Ephemeral - the number of PATHS
            //       through the Ephemerals is exponential in the depth (4^38); anything that walks per path
            //       instead of per job never comes back.
            let (w, layers) = if family == "dense-layers-wide" { ((n / 3).clamp(2, 500), 3) } else { (12, (n / 12).clamp(2, 40)) };
            let root = add(&mut defs, &mut g, Kind::Always);
            let mut prev: Vec<usize> = vec![root];
            let mut last = root;
            for l in 0..layers {
                let mut cur = Vec::new();
                for i in 0..w {
                    let kind = if l == layers - 1 || l == 0 || i % 3 != 1 { Kind::Output } else { Kind::Ephemeral };
                    let j = add(&mut defs, &mut g, kind);
                    for u in prev.iter() {
                        g.edges.insert((j, *u), vec![]);
                    }
                    last = j;
                    cur.push(j);
                }
                prev = cur;
            }
            (defs, g, root, last)
        }
        "fan-in" => {
            // n-1 roots (mixed kinds) feeding one Output
            let mut roots = Vec::new();
            for i in 0..n - 1 {
                let kind = match i % 3 {
                    0 => Kind::Output,
                    1 => Kind::Ephemeral,
                    _ => Kind::Output,
                };
                roots.push(add(&mut defs, &mut g, kind));
            }
            let sink = add(&mut defs, &mut g, Kind::Output);
            for r in roots.iter() {
                g.edges.insert((sink, *r), vec![]);
            }
            (defs, g, 0, sink)
        }
        _ => {
            // fan-out: one root feeding n-1 jobs
            let root = add(&mut defs, &mut g, Kind::Output);
            let mut last = root;
            for i in 0..n - 1 {
                let kind = if i % 4 == 1 { Kind::Ephemeral } else { Kind::Output };
                let j = add(&mut defs, &mut g, kind);
                g.edges.insert((j, root), vec![]);
                if kind == Kind::Output {
                    last = j;
                }
            }
            (defs, g, root, last)
        }
    }
}

pub struct LeanOut {
    pub started: BTreeSet<usize>,
    pub ok: BTreeSet<usize>,
    pub failed: BTreeSet<usize>,
    pub upstream_failed: BTreeSet<usize>,
    pub error: Option<String>,
    pub h_out: Option<BTreeMap<String, String>>,
    pub calls: u64,
    pub aborted: bool,
    pub stalled: bool,
    pub ready_after_finish: usize,
}

/// lean evaluation: no per-step observation
#[allow(clippy::too_many_arguments)]
pub fn lean_evaluate(
    cfg: &Config,
    defs: &[Def],
    world: &mut World,
    gv: &GraphView,
    order: &str,
    fail: &BTreeSet<usize>,
    abort_after: Option<usize>,
    hash_seed: u64,
) -> LeanOut {
    let n = gv.jobs.len();
    vs::set_hash_seed(hash_seed);
    vs::enable_transition_log(false);
    let mut hist = <vs::HashMap<String, String> as vs::SeamNew>::new();
    for (k, v) in world.history.iter() {
        hist.insert(k.clone(), v.clone());
    }
    let disk = Rc::new(RefCell::new(world.disk.clone()));
    let parts_of: Rc<BTreeMap<String, Vec<String>>> = Rc::new(gv.jobs.iter().map(|j| (j.id.clone(), j.parts.clone())).collect());
    let inputs_of: Rc<BTreeMap<String, Vec<String>>> = Rc::new(gv.jobs.iter().map(|j| (j.id.clone(), j.consumed_names.clone())).collect());
    let strategy = {
        let d = disk.clone();
        let po = parts_of.clone();
        let po2 = parts_of.clone();
        let io = inputs_of.clone();
        let cfgc = cfg.clone();
        vs::StrategyForVerif {
            present: Box::new(move |q: &str| {
                let d = d.borrow();
                po.get(q).map(|ps| ps.iter().all(|p| d.contains_key(p))).unwrap_or(false)
            }),
            altered: Box::new(move |up: &str, down: &str, last: &str, now: &str| {
                let empty = Vec::new();
                let up_parts = po2.get(up).unwrap_or(&empty);
                let r = if down == "!!!" { altered(&cfgc, up_parts, None, last, now) } else { altered(&cfgc, up_parts, Some(io.get(down).unwrap_or(&empty)), last, now) };
                r.unwrap_or_else(|e| panic!("History comparison failed on python side: {}", e))
            }),
            input_list: Box::new(move |_job: &str, ups: &[&str]| ups.join("\n")),
        }
    };
    let mut eng = Eng::new(PPGEvaluator::new_with_history(hist, strategy));
    for j in gv.jobs.iter() {
        eng.add_node(
            &j.id,
            match j.kind {
                Kind::Always => JobKind::Always,
                Kind::Output => JobKind::Output,
                Kind::Ephemeral => JobKind::Ephemeral,
            },
        );
    }
    for (d, j) in gv.jobs.iter().enumerate() {
        for (u, _) in j.ups.iter() {
            eng.depends_on(&gv.jobs[d].id, &gv.jobs[*u].id);
        }
    }
    let mut out = LeanOut {
        started: BTreeSet::new(),
        ok: BTreeSet::new(),
        failed: BTreeSet::new(),
        upstream_failed: BTreeSet::new(),
        error: None,
        h_out: None,
        calls: 0,
        aborted: false,
        stalled: false,
        ready_after_finish: 0,
    };
    let mut tmp: BTreeMap<String, u64> = BTreeMap::new();
    let err = |call: &str, r: &CallRes| -> Option<String> {
        match r {
            CallRes::Ok => None,
            CallRes::Panic(m) => Some(format!("panic in {}: {}", call, normalise(m))),
            CallRes::Internal(m) => Some(format!("internal-error in {}: {}", call, if std::env::var("VERIF_RAW").is_ok() { m.clone() } else { normalise(m) })),
            CallRes::Api(m) => Some(format!("api-error in {}: {}", call, normalise(m))),
            CallRes::Contract => Some(format!("contract error in {}", call)),
        }
    };
    let r = eng.startup();
    if let Some(e) = err("event_startup", &r) {
        out.error = Some(e);
        out.calls = eng.calls as u64;
        return out;
    }
    let mut clock = world.clock;
    let mut finished_count = 0usize;
    let mut do_abort = false;
    'outer: loop {
        match eng.is_finished() {
            Ok(true) => break,
            Ok(false) => {}
            Err(p) => {
                out.error = Some(format!("panic in is_finished: {}", normalise(&p)));
                break;
            }
        }
        let ready: Vec<usize> = eng.ready().iter().filter_map(|id| gv.idx.get(id).copied()).collect();
        if ready.is_empty() {
            out.stalled = true;
            out.error = Some("stall: not finished, nothing ready, nothing running".to_string());
            break;
        }
        let batch: Vec<usize> = match order {
            "fifo" => vec![ready[0]],
            _ => ready.clone(),
        };
        // start the batch
        let mut started_now = Vec::new();
        for j in batch.iter() {
            let r = eng.now_running(&gv.jobs[*j].id);
            if let Some(e) = err("event_now_running", &r) {
                out.error = Some(e);
                break 'outer;
            }
            out.started.insert(*j);
            started_now.push(*j);
        }
        if order == "lifo" {
            started_now.reverse();
        }
        for j in started_now {
            if let Some(k) = abort_after {
                if finished_count >= k {
                    do_abort = true;
                    // fail this and every other running job first (what runner.py does)
                    for id in eng.running() {
                        let r = eng.failure(&id);
                        if let Some(e) = err("event_job_finished_failure", &r) {
                            out.error = Some(e);
                            break 'outer;
                        }
                        if let Some(x) = gv.idx.get(&id) {
                            out.failed.insert(*x);
                        }
                    }
                    break 'outer;
                }
            }
            let job = &gv.jobs[j];
            clock += 1;
            finished_count += 1;
            if fail.contains(&j) {
                out.failed.insert(j);
                let r = eng.failure(&job.id);
                if let Some(e) = err("event_job_finished_failure", &r) {
                    out.error = Some(e);
                    break 'outer;
                }
                continue;
            }
            let mut inputs = Vec::new();
            let mut missing = false;
            {
                let d = disk.borrow();
                for (u, consumed) in job.ups.iter() {
                    for p in consumed {
                        let v = match gv.jobs[*u].kind {
                            Kind::Output => d.get(p).copied(),
                            _ => tmp.get(p).copied(),
                        };
                        match v {
                            Some(v) => inputs.push((gv.jobs[*u].def, p.clone(), v)),
                            None => missing = true,
                        }
                    }
                }
            }
            if missing {
                // a job started without one of its inputs fails, as a real job would
                out.error = Some(format!("job started while an input was not materialised ({:?} job)", job.kind));
                break 'outer;
            }
            let vals: Vec<(String, u64)> = job.parts.iter().map(|p| (p.clone(), content(defs, job, p, &inputs))).collect();
            match job.kind {
                Kind::Output => {
                    let mut d = disk.borrow_mut();
                    for (p, v) in vals.iter() {
                        d.insert(p.clone(), *v);
                    }
                }
                _ => {
                    for (p, v) in vals.iter() {
                        tmp.insert(p.clone(), *v);
                    }
                }
            }
            let rec = format_record(&vals, if cfg.noise { clock } else { 0 });
            let r = eng.success(&job.id, rec);
            if let Some(e) = err("event_job_finished_success", &r) {
                out.error = Some(e);
                break 'outer;
            }
            out.ok.insert(j);
            for c in eng.cleanup() {
                let r = eng.cleanup_done(&c);
                if let Some(e) = err("event_job_cleanup_done", &r) {
                    out.error = Some(e);
                    break 'outer;
                }
            }
        }
    }
    if abort_after == Some(0) && out.error.is_none() && !do_abort {
        do_abort = true;
    }
    if do_abort && out.error.is_none() {
        out.aborted = true;
        let r = eng.abort();
        if let Some(e) = err("abort_remaining", &r) {
            out.error = Some(e);
        }
    }
    if out.error.is_none() {
        match eng.is_finished() {
            Ok(true) => {
                out.ready_after_finish = eng.ready().len();
                match eng.new_history() {
                    Ok(h) => out.h_out = Some(h),
                    Err(r) => out.error = err("new_history", &r).or(Some("new_history failed".into())),
                }
            }
            Ok(false) => out.error = Some("not finished after the loop".to_string()),
            Err(p) => out.error = Some(format!("panic in is_finished: {}", normalise(&p))),
        }
        out.upstream_failed = eng.upstream_failed().iter().filter_map(|id| gv.idx.get(id).copied()).collect();
    }
    out.calls = eng.calls as u64;
    world.disk = disk.borrow().clone();
    world.clock = clock + 1;
    if let Some(h) = &out.h_out {
        world.history = h.clone();
    }
    let _ = n;
    out
}

fn run_case(family: &str, size: usize, cascade: &str, order: &str, hash_seed: u64) -> serde_json::Value {
    let t0 = Instant::now();
    let cfg = Config { cmp: Cmp::Exact, names: Names::JobIds, noise: false };
    let (defs, g, root, leaf) = build_family(family, size);
    let mut world = World { g, ..Default::default() };
    let none = BTreeSet::new();
    let mut result = json!({"family": family, "size": size, "cascade": cascade, "order": order});
    let mut problems: Vec<String> = Vec::new();
    let mut calls = 0u64;
    let mut evals = 0u64;
    // compare a lean evaluation with the reference
    let mut check = |world: &mut World, label: &str, fail: &BTreeSet<usize>, abort_after: Option<usize>, problems: &mut Vec<String>| -> Option<LeanOut> {
        let gv = GraphView::build(&defs, &world.g);
        let r = reference(&cfg, &defs, &gv, &world.history, &world.disk);
        let o = lean_evaluate(&cfg, &defs, world, &gv, order, fail, abort_after, hash_seed);
        calls += o.calls;
        evals += 1;
        if let Some(e) = &o.error {
            problems.push(format!("{}: {}", label, e));
            return None;
        }
        let exec: BTreeSet<usize> = (0..gv.jobs.len()).filter(|j| r.exec[*j]).collect();
        if fail.is_empty() && abort_after.is_none() {
            if o.started != exec {
                let missing = exec.difference(&o.started).count();
                let extra = o.started.difference(&exec).count();
                problems.push(format!("{}: executed set differs from the reference ({} missing, {} extra of {} expected)", label, missing, extra, exec.len()));
            }
        } else {
            if !o.started.is_subset(&exec) {
                problems.push(format!("{}: executed jobs outside the reference set", label));
            }
            if abort_after.is_none() {
                // everything downstream of a failed job must be upstream-failed
                let mut blocked = vec![false; gv.jobs.len()];
                let live = gv.live();
                let mut want = 0;
                for j in gv.topo() {
                    blocked[j] = gv.jobs[j].ups.iter().any(|(u, _)| blocked[*u] || o.failed.contains(u));
                    if blocked[j] && live[j] && !o.started.contains(&j) {
                        want += 1;
                        if !o.upstream_failed.contains(&j) {
                            problems.push(format!("{}: a job downstream of the failure is not reported upstream-failed", label));
                            break;
                        }
                    }
                }
                if want == 0 && !fail.is_empty() && gv.jobs.len() > 1 {
                    // nothing to check is fine (e.g. root has no downstream)
                }
            } else if o.ready_after_finish != 0 {
                problems.push(format!("{}: jobs still reported ready after abort", label));
            }
        }
        Some(o)
    };
    // bring the project up to date first (except for first-build)
    let ok_first = check(&mut world, "first-build", &none, None, &mut problems).is_some();
    if ok_first && cascade != "first-build" {
        let gvd = GraphView::build(&defs, &world.g);
        let root_j = gvd.jobs.iter().position(|j| j.def == root).unwrap();
        let leaf_j = gvd.jobs.iter().position(|j| j.def == leaf).unwrap();
        match cascade {
            "up-to-date" => {
                check(&mut world, "up-to-date", &none, None, &mut problems);
            }
            "invalidate-root-unchanged" => {
                for p in gvd.jobs[root_j].parts.iter() {
                    world.disk.remove(p);
                }
                check(&mut world, "invalidate-root-unchanged", &none, None, &mut problems);
            }
            "invalidate-root-changed" => {
                // only an Always root can change its output without anything else changing
                if gvd.jobs[root_j].kind == Kind::Always {
                    *world.g.ext.entry(root).or_insert(0) += 1;
                    check(&mut world, "invalidate-root-changed", &none, None, &mut problems);
                } else {
                    // all other roots: every leaf-side output deleted at once (wide invalidation)
                    let outs: Vec<String> = gvd.jobs.iter().filter(|j| j.kind == Kind::Output && j.downs.is_empty()).flat_map(|j| j.parts.clone()).collect();
                    for p in outs {
                        world.disk.remove(&p);
                    }
                    check(&mut world, "invalidate-all-leaves", &none, None, &mut problems);
                }
            }
            "invalidate-leaf" => {
                for p in gvd.jobs[leaf_j].parts.iter() {
                    world.disk.remove(p);
                }
                check(&mut world, "invalidate-leaf", &none, None, &mut problems);
            }
            "late-fail-through-skipped" => {
                // only meaningful where an Ephemeral becomes required late: the Always root changes,
                // the Ephemeral below it is re-executed for one consumer and fails, after its other
                // (up to date) consumers were already skipped - the failure has to travel through them
                if family == "skipped-chain-behind-ephemeral" {
                    *world.g.ext.entry(root).or_insert(0) += 1;
                    let mut f = BTreeSet::new();
                    f.insert(gvd.jobs.iter().position(|j| j.kind == Kind::Ephemeral).unwrap());
                    check(&mut world, "late-fail-through-skipped", &f, None, &mut problems);
                    check(&mut world, "after-late-fail", &none, None, &mut problems);
                }
            }
            "fail-root" => {
                // make everything need to run again, then fail the root
                world.history.clear();
                world.disk.clear();
                let mut f = BTreeSet::new();
                f.insert(root_j);
                check(&mut world, "fail-root", &f, None, &mut problems);
                // and a follow-up must work on the history that run left
                check(&mut world, "after-fail-root", &none, None, &mut problems);
            }
            "abort-start" => {
                world.history.clear();
                world.disk.clear();
                check(&mut world, "abort-start", &none, Some(0), &mut problems);
                check(&mut world, "after-abort-start", &none, None, &mut problems);
            }
            "abort-middle" => {
                world.history.clear();
                world.disk.clear();
                check(&mut world, "abort-middle", &none, Some(size / 2), &mut problems);
                check(&mut world, "after-abort-middle", &none, None, &mut problems);
            }
            _ => {}
        }
    }
    result["problems"] = json!(problems);
    result["engine_calls"] = json!(calls);
    result["evaluations"] = json!(evals);
    result["wall_s"] = json!(t0.elapsed().as_secs_f64());
    result
}

/// child process entry: c19case <family> <size> <cascade> <order> <hash_seed>
pub fn cmd_case(args: &[String]) -> i32 {
    if args.len() < 5 {
        return 2;
    }
    let family = args[0].clone();
    let size: usize = args[1].parse().unwrap_or(10);
    let cascade = args[2].clone();
    let order = args[3].clone();
    let hs: u64 = args[4].parse().unwrap_or(0);
    // Families without Ephemerals never make the (unchanged) engine recurse, so their stack need
    // must not grow with depth: run them on a small stack, which turns "would overflow 8 MiB at
    // depth ~50 000" into a failure at depth ~2 000. Everything else gets the Linux default 8 MiB.
    let small = matches!(family.as_str(), "chain-output" | "chain-always-root" | "deep-chain-short-sibling");
    let stack = std::env::var("VERIF_STACK_KIB").ok().and_then(|s| s.parse::<usize>().ok()).map(|k| k << 10).unwrap_or(if small { 256 << 10 } else { 8 << 20 });
    let h = std::thread::Builder::new()
        .stack_size(stack)
        .spawn(move || run_case(&family, size, &cascade, &order, hs))
        .unwrap();
    match h.join() {
        Ok(v) => {
            println!("{}", v);
            0
        }
        Err(_) => {
            println!("{}", json!({"problems": ["harness thread panicked"]}));
            3
        }
    }
}

pub fn check_c19(thorough: bool, seed: u64, threads: usize) -> i32 {
    let t0 = Instant::now();
    let sizes: Vec<usize> = if thorough { vec![100, 1000, 3000, 10000, 30000] } else { vec![100, 700, 2000, 5000] };
    let cap_s: u64 = if thorough { 600 } else { 120 };
    let mut cases: Vec<(String, usize, String, String)> = Vec::new();
    let mut r = Rng::new(hash2(seed, 0xC19));
    for f in FAMILIES.iter() {
        for s in sizes.iter() {
            for c in CASCADES.iter() {
                // all three orders for the small sizes; one drawn order for the big ones (cost)
                let orders: Vec<&str> = if *s <= 1000 || thorough { ORDERS.to_vec() } else { vec![*r.pick(&ORDERS)] };
                for o in orders {
                    // quadratic families are capped in quick mode
                    cases.push((f.to_string(), *s, c.to_string(), o.to_string()));
                }
            }
        }
    }
    let exe = std::env::current_exe().unwrap();
    let next = std::sync::atomic::AtomicUsize::new(0);
    let results: std::sync::Mutex<Vec<(usize, serde_json::Value)>> = std::sync::Mutex::new(Vec::new());
    std::thread::scope(|s| {
        for _ in 0..threads {
            s.spawn(|| loop {
                let i = next.fetch_add(1, std::sync::atomic::Ordering::Relaxed);
                if i >= cases.len() {
                    break;
                }
                let (f, sz, c, o) = &cases[i];
                let started = Instant::now();
                let child = std::process::Command::new(&exe)
                    .arg("c19case")
                    .arg(f)
                    .arg(sz.to_string())
                    .arg(c)
                    .arg(o)
                    .arg((hash2(seed, i as u64) >> 1).to_string())
                    .stdout(std::process::Stdio::piped())
                    .stderr(std::process::Stdio::null())
                    .spawn();
                let mut child = match child {
                    Ok(c) => c,
                    Err(e) => {
                        results.lock().unwrap().push((i, json!({"harness_error": format!("{}", e)})));
                        continue;
                    }
                };
                let mut timed_out = false;
                let status = loop {
                    match child.try_wait() {
                        Ok(Some(st)) => break Some(st),
                        Ok(None) => {
                            // the deep dense family takes well under a second on the unchanged engine; there a case
                            // that does not come back IS the finding (work that grows with the number of paths)
                            let cap_here = if f == "dense-layers-deep" { DEEP_CAP_S } else { cap_s };
                            if started.elapsed().as_secs() > cap_here {
                                let _ = child.kill();
                                let _ = child.wait();
                                timed_out = true;
                                break None;
                            }
                            std::thread::sleep(std::time::Duration::from_millis(20));
                        }
                        Err(_) => break None,
                    }
                };
                let mut v = json!({"family": f, "size": sz, "cascade": c, "order": o});
                if timed_out && f == "dense-layers-deep" {
                    v["evaluations"] = json!(1);
                    v["problems"] = json!([format!("no result within {} s (the unchanged engine needs less than one): the work grows with the number of paths through the graph, not with the number of jobs", DEEP_CAP_S)]);
                } else if timed_out {
                    v["inconclusive"] = json!(format!("exceeded the {} s cap", cap_s));
                } else {
                    let mut outs = String::new();
                    if let Some(mut so) = child.stdout.take() {
                        use std::io::Read;
                        let _ = so.read_to_string(&mut outs);
                    }
                    match status {
                        Some(st) if st.success() => match serde_json::from_str::<serde_json::Value>(outs.trim()) {
                            Ok(x) => v = x,
                            Err(_) => v["harness_error"] = json!("unparsable child output"),
                        },
                        Some(st) => {
                            // killed by a signal (stack overflow = SIGSEGV/SIGABRT) or abnormal exit
                            v["problems"] = json!([format!("child process died ({:?}): stack overflow or abort", st)]);
                        }
                        None => v["harness_error"] = json!("wait failed"),
                    }
                }
                results.lock().unwrap().push((i, v));
            });
        }
    });
    let mut results = results.into_inner().unwrap();
    results.sort_by_key(|(i, _)| *i);
    let known = crate::load_known_pub();
    let mut exit = 0;
    let mut known_lines: BTreeMap<String, u64> = BTreeMap::new();
    let mut replays = Vec::new();
    let mut evals = 0u64;
    let mut calls = 0u64;
    let mut inconclusive = 0u64;
    let mut distinct = BTreeSet::new();
    let mut samples = Vec::new();
    let mut reported: BTreeSet<String> = BTreeSet::new();
    for (i, v) in results.iter() {
        if v.get("harness_error").is_some() {
            eprintln!("harness error in case {}: {}", i, v);
            return 2;
        }
        evals += v["evaluations"].as_u64().unwrap_or(0);
        calls += v["engine_calls"].as_u64().unwrap_or(0);
        if v.get("inconclusive").is_some() {
            inconclusive += 1;
            continue;
        }
        if v["size"].as_u64().unwrap_or(0) >= 700 {
            distinct.insert(format!("{}|{}|{}|{}", v["family"], v["size"], v["cascade"], v["order"]));
        }
        if samples.len() < 4 {
            samples.push(v.clone());
        }
        if let Some(ps) = v["problems"].as_array() {
            for p in ps {
                let msg = p.as_str().unwrap_or("").to_string();
                let (f, sz, c, o) = &cases[*i];
                let fake = crate::driver::Violation { prop: "C19", clause: c.clone(), msg: format!("{} {}", f, msg) };
                let k = known.findings.iter().find(|k| {
                    k.property == "C19"
                        && (k.clause == "*" || k.clause == fake.clause)
                        && k.msg_contains.as_ref().map(|m| fake.msg.contains(m.as_str())).unwrap_or(true)
                        && k.witness.as_ref().map(|w| c19_witness(w, f, *sz)).unwrap_or(true)
                });
                match k {
                    Some(k) => {
                        *known_lines.entry(format!("KNOWN-FINDING: property=C19 {}", k.description)).or_insert(0) += 1;
                    }
                    None => {
                        let sig = format!("{}|{}", f, msg);
                        if reported.contains(&sig) {
                            continue;
                        }
                        reported.insert(sig);
                        let dir = crate::verif_dir_pub().join("replays");
                        let _ = std::fs::create_dir_all(&dir);
                        let path = dir.join(format!("C19-{}-{}-{}-{}.json", f, sz, c, o));
                        let mut rf = json!({"property": "C19", "c19case": [f, sz.to_string(), c, o, (hash2(seed, *i as u64) >> 1).to_string()], "message": msg});
                        if f == "dense-layers-deep" {
                            rf["timeout_s"] = json!(DEEP_CAP_S);
                        }
                        let _ = std::fs::write(&path, serde_json::to_string_pretty(&rf).unwrap());
                        println!("VIOLATION property=C19 replay={}", path.display());
                        println!("  {} size {} cascade {} order {}: {}", f, sz, c, o, msg);
                        replays.push(path.display().to_string());
                        exit = 1;
                    }
                }
            }
        }
    }
    for (l, n) in known_lines.iter() {
        println!("{} (hit {} times)", l, n);
    }
    let wall = t0.elapsed().as_secs_f64();
    let ev = json!({
        "property_id": "C19",
        "tier": if thorough { "thorough" } else { "quick" },
        "seed": seed,
        "level": "exploration",
        "wall_s": wall,
        "violations": replays.len(),
        "coverage": {
            "evaluations": evals,
            "distinct_nontrivial": distinct.len(),
            "rule": "one case = (family, size, cascade, completion order) run in a child process with an 8 MiB stack thread: bring the project up to date, apply the cascade, evaluate, compare executed set / upstream-failed set with the O(n) reference; distinct = distinct (family,size,cascade,order); non-trivial = size >= 700 and the case completed within the time cap",
            "samples": samples,
            "cases": cases.len(),
            "inconclusive_time_cap": inconclusive,
            "sizes": sizes,
            "families": FAMILIES,
            "cascades": CASCADES,
            "orders": ORDERS,
            "engine_calls": calls,
            "cases_per_hour": (cases.len() as f64 * 3600.0 / wall.max(0.001)) as u64,
            "faults_fired": {"job_failure_at_root": cases.iter().filter(|c| c.2 == "fail-root").count(), "abort": cases.iter().filter(|c| c.2.starts_with("abort")).count()},
            "known_findings_hit": known_lines.keys().collect::<Vec<_>>(),
            "replay_files": replays,
            "components": {"real": ["src/engine.rs compiled from /repo working tree"], "stub": ["lean driver (fifo / wide / lifo completion orders)", "world model"]}
        },
        "assumptions": ["8 MiB stack (the default main-thread stack on Linux)", "a case exceeding the wall-clock cap is inconclusive, not a violation"]
    });
    let dir = crate::verif_dir_pub().join("evidence");
    let _ = std::fs::create_dir_all(&dir);
    let _ = std::fs::write(dir.join("C19.json"), serde_json::to_string_pretty(&ev).unwrap());
    println!("C19: cases={} evaluations={} inconclusive={} wall={:.1}s violations(unlisted)={}", cases.len(), evals, inconclusive, wall, replays.len());
    exit
}

fn c19_witness(w: &str, family: &str, size: usize) -> bool {
    match w {
        "size>=500" => size >= 500,
        "size>=10000" => size >= 10000,
        "ephemeral-chain" => family.contains("ephemeral"),
        _ => false,
    }
}

pub fn replay_c19(v: &serde_json::Value, quiet: bool) -> i32 {
    let args: Vec<String> = v["c19case"].as_array().map(|a| a.iter().map(|x| x.as_str().unwrap_or("").to_string()).collect()).unwrap_or_default();
    if args.len() < 5 {
        return 2;
    }
    let exe = std::env::current_exe().unwrap();
    if let Some(t) = v.get("timeout_s").and_then(|t| t.as_u64()) {
        // a case whose violation may be "does not come back": replay under the same cap
        let mut child = match std::process::Command::new(&exe).arg("c19case").args(&args).stdout(std::process::Stdio::piped()).stderr(std::process::Stdio::null()).spawn() {
            Ok(c) => c,
            Err(_) => return 2,
        };
        let started = Instant::now();
        loop {
            match child.try_wait() {
                Ok(Some(_)) => break,
                Ok(None) => {
                    if started.elapsed().as_secs() > t {
                        let _ = child.kill();
                        let _ = child.wait();
                        if !quiet {
                            println!("no result within {} s", t);
                            println!("VIOLATION property=C19 replay=<this file>");
                        }
                        return 1;
                    }
                    std::thread::sleep(std::time::Duration::from_millis(20));
                }
                Err(_) => return 2,
            }
        }
        let mut s = String::new();
        if let Some(mut so) = child.stdout.take() {
            use std::io::Read;
            let _ = so.read_to_string(&mut s);
        }
        let has_problem = serde_json::from_str::<serde_json::Value>(s.trim())
            .map(|x| x["problems"].as_array().map(|a| !a.is_empty()).unwrap_or(false))
            .unwrap_or(true);
        if !quiet {
            println!("{}", s.trim());
            if has_problem {
                println!("VIOLATION property=C19 replay=<this file>");
            }
        }
        return if has_problem { 1 } else { 0 };
    }
    let out = std::process::Command::new(exe).arg("c19case").args(&args).output();
    match out {
        Ok(o) => {
            let s = String::from_utf8_lossy(&o.stdout).to_string();
            let died = !o.status.success();
            let has_problem = died
                || serde_json::from_str::<serde_json::Value>(s.trim())
                    .map(|x| x["problems"].as_array().map(|a| !a.is_empty()).unwrap_or(false))
                    .unwrap_or(true);
            if !quiet {
                println!("{}", s.trim());
            }
            if has_problem {
                if !quiet {
                    println!("VIOLATION property=C19 replay=<this file>");
                }
                1
            } else {
                0
            }
        }
        Err(_) => 2,
    }
}

/// write a small family instance as an ordinary scenario (for tracing / shrinking with the full driver)
pub fn cmd_family_scenario(args: &[String]) -> i32 {
    let family = &args[0];
    let size: usize = args[1].parse().unwrap_or(10);
    let (defs, g, root, _leaf) = build_family(family, size);
    let mut edits = Vec::new();
    for d in 0..defs.len() {
        edits.push(Edit::AddJob { def: d });
    }
    for ((down, up), c) in g.edges.iter() {
        edits.push(Edit::AddEdge { down: *down, up: *up, consumed: c.clone() });
    }
    let plan = EvalPlan::plain(Policy::Sequential, 1, 0, 0, 0);
    let sc = Scenario {
        seed: 0,
        profile: "family".into(),
        cfg: Config { cmp: Cmp::Exact, names: Names::JobIds, noise: false },
        defs,
        rounds: vec![Round { edits, plan: plan.clone() }, Round { edits: vec![Edit::BumpExt { def: root }], plan }],
    };
    println!("{}", serde_json::to_string(&sc).unwrap());
    0
}
