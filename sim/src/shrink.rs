//! Structured minimisation of a failing scenario, witness classification for known
//! findings, and a human readable trace.

use crate::checks::*;
use crate::driver::*;
use crate::model::*;
use crate::world::*;
use crate::KnownFindingsFile;

fn find(sc: &Scenario, opts: &RunOpts, target: &Violation, known: &KnownFindingsFile) -> Option<(usize, Violation)> {
    let rep = run_scenario(sc, opts);
    // same property and clause must persist; the candidate must stay outside the known findings
    rep.violations
        .into_iter()
        .find(|(r, v)| {
            v.prop == target.prop
                && v.clause == target.clause
                && (target.prop != "C06" || v.msg == target.msg)
                && !known.findings.iter().any(|k| crate::matches_known(k, target.prop, v, sc, *r))
        })
}

fn candidates(sc: &Scenario, vround: usize) -> Vec<Scenario> {
    let mut out = Vec::new();
    // 1. drop rounds after the violating one
    if sc.rounds.len() > vround + 1 {
        let mut s = sc.clone();
        s.rounds.truncate(vround + 1);
        out.push(s);
    }
    // 2. drop an evaluation (keep its edits by moving them to the next round)
    for i in 0..sc.rounds.len().saturating_sub(1) {
        let mut s = sc.clone();
        let r = s.rounds.remove(i);
        let mut edits = r.edits;
        edits.extend(s.rounds[i].edits.drain(..));
        s.rounds[i].edits = edits;
        out.push(s);
    }
    // 3. delete a def everywhere
    for d in 0..sc.defs.len() {
        let mut s = sc.clone();
        let mut changed = false;
        for r in s.rounds.iter_mut() {
            let before = r.edits.len();
            r.edits.retain(|e| match e {
                Edit::AddJob { def } | Edit::RemoveJob { def } | Edit::BumpExt { def } | Edit::RevertExt { def } | Edit::DeleteOutput { def, .. } | Edit::SetParts { def, .. } | Edit::SetKind { def, .. } => *def != d,
                Edit::AddEdge { down, up, .. } | Edit::RemoveEdge { down, up } => *down != d && *up != d,
            });
            changed |= before != r.edits.len();
            changed |= r.plan.fail.remove(&d).is_some();
            changed |= r.plan.contract.remove(&d).is_some();
        }
        if changed {
            out.push(s);
        }
    }
    // 4. drop single edits
    for (ri, r) in sc.rounds.iter().enumerate() {
        for ei in 0..r.edits.len() {
            let mut s = sc.clone();
            s.rounds[ri].edits.remove(ei);
            out.push(s);
        }
    }
    // 5. drop faults, simplify plans
    for (ri, r) in sc.rounds.iter().enumerate() {
        for d in r.plan.fail.keys() {
            let mut s = sc.clone();
            s.rounds[ri].plan.fail.remove(d);
            out.push(s);
        }
        if r.plan.fail_validated_eph.is_some() {
            let mut s = sc.clone();
            s.rounds[ri].plan.fail_validated_eph = None;
            out.push(s);
        }
        for k in r.plan.fail_started.keys() {
            let mut s = sc.clone();
            s.rounds[ri].plan.fail_started.remove(k);
            out.push(s);
        }
        for (d, l) in r.plan.fail.iter() {
            if *l != Leave::Garbage {
                let mut s = sc.clone();
                s.rounds[ri].plan.fail.insert(*d, Leave::Garbage);
                out.push(s);
            }
        }
        if r.plan.abort.is_some() {
            let mut s = sc.clone();
            s.rounds[ri].plan.abort = None;
            out.push(s);
            let ab = r.plan.abort.as_ref().unwrap();
            if ab.fail_running != FailRunning::All {
                let mut s = sc.clone();
                s.rounds[ri].plan.abort.as_mut().unwrap().fail_running = FailRunning::All;
                out.push(s);
            }
            if ab.at > 0 {
                let mut s = sc.clone();
                s.rounds[ri].plan.abort.as_mut().unwrap().at -= 1;
                out.push(s);
            }
        }
        for d in r.plan.contract.keys() {
            let mut s = sc.clone();
            s.rounds[ri].plan.contract.remove(d);
            out.push(s);
        }
        for mi in 0..r.plan.misuse.len() {
            let mut s = sc.clone();
            s.rounds[ri].plan.misuse.remove(mi);
            out.push(s);
        }
        if !r.plan.reconsider.is_empty() {
            let mut s = sc.clone();
            s.rounds[ri].plan.reconsider.clear();
            out.push(s);
        }
        for mi in 0..r.plan.reconsider.len() {
            let mut s = sc.clone();
            s.rounds[ri].plan.reconsider.remove(mi);
            out.push(s);
        }
        if r.plan.policy != Policy::Sequential {
            let mut s = sc.clone();
            s.rounds[ri].plan.policy = Policy::Sequential;
            out.push(s);
        }
        if r.plan.workers != 1 {
            let mut s = sc.clone();
            s.rounds[ri].plan.workers = 1;
            out.push(s);
        }
        if r.plan.sched_seed > 8 {
            for k in 0..3 {
                let mut s = sc.clone();
                s.rounds[ri].plan.sched_seed = k;
                out.push(s);
            }
        }
        if r.plan.hash_seed != 0 {
            let mut s = sc.clone();
            s.rounds[ri].plan.hash_seed = 0;
            out.push(s);
        }
        if r.plan.decl_seed != 0 {
            let mut s = sc.clone();
            s.rounds[ri].plan.decl_seed = 0;
            out.push(s);
        }
    }
    // 6. simplify configuration and behaviours
    if sc.cfg.noise {
        let mut s = sc.clone();
        s.cfg.noise = false;
        out.push(s);
    }
    if sc.cfg.cmp == Cmp::Semantic && !sc.cfg.noise {
        let mut s = sc.clone();
        s.cfg.cmp = Cmp::Exact;
        out.push(s);
    }
    if sc.cfg.names == Names::Parts {
        let mut s = sc.clone();
        s.cfg.names = Names::JobIds;
        // under the job-id naming every dependency consumes all files of its upstream (see load_corpus_dir)
        for r in s.rounds.iter_mut() {
            for e in r.edits.iter_mut() {
                if let Edit::AddEdge { consumed, .. } = e {
                    consumed.clear();
                }
            }
        }
        out.push(s);
    }
    for d in 0..sc.defs.len() {
        if sc.defs[d].constant.iter().any(|c| *c) {
            let mut s = sc.clone();
            for c in s.defs[d].constant.iter_mut() {
                *c = false;
            }
            out.push(s);
        }
        if sc.defs[d].ignores.iter().any(|c| !c.is_empty()) {
            let mut s = sc.clone();
            for c in s.defs[d].ignores.iter_mut() {
                c.clear();
            }
            out.push(s);
        }
    }
    // 7. shrink consumed subsets to "everything"
    for (ri, r) in sc.rounds.iter().enumerate() {
        for (ei, e) in r.edits.iter().enumerate() {
            if let Edit::AddEdge { down, up, consumed } = e {
                if !consumed.is_empty() {
                    let mut s = sc.clone();
                    s.rounds[ri].edits[ei] = Edit::AddEdge { down: *down, up: *up, consumed: Vec::new() };
                    out.push(s);
                }
            }
        }
    }
    out
}

pub fn shrink(sc: &Scenario, opts: &RunOpts, target: &Violation, known: &KnownFindingsFile) -> (Scenario, usize, Violation) {
    let mut cur = sc.clone();
    let (mut round, mut vio) = match find(&cur, opts, target, known) {
        Some(x) => x,
        None => return (cur, 0, target.clone()),
    };
    let mut budget = 4000;
    loop {
        let mut improved = false;
        for cand in candidates(&cur, round) {
            if budget == 0 {
                break;
            }
            budget -= 1;
            if cand == cur {
                continue;
            }
            if let Some((r, v)) = find(&cand, opts, target, known) {
                cur = cand;
                round = r;
                vio = v;
                improved = true;
                break;
            }
        }
        if !improved || budget == 0 {
            break;
        }
    }
    (cur, round, vio)
}

/// Structural predicates used by known-findings entries, so that a listed finding matches
/// only witnesses of its own class.
pub fn witness_holds(name: &str, sc: &Scenario, round: usize, vio: &Violation) -> bool {
    // replay the chain up to `round` to get the graph and history the violating evaluation saw
    let mut world = World::default();
    let mut pre = world.clone();
    let mut out: Option<EvalOut> = None;
    for (ri, r) in sc.rounds.iter().enumerate() {
        for e in r.edits.iter() {
            world.apply_edit(&sc.defs, e);
        }
        pre = world.clone();
        let o = evaluate(&sc.cfg, &sc.defs, &mut world, &r.plan, ri as u64 + 1);
        if ri == round {
            out = Some(o);
            break;
        }
        if o.engine_error.is_some() {
            return false;
        }
    }
    let out = match out {
        Some(o) => o,
        None => return false,
    };
    crate::witness::holds(name, sc, &pre, &out, vio)
}

pub fn trace_eval(label: &str, out: &EvalOut) {
    println!("  ---- {} ----", label);
    println!("  history in:");
    for (k, v) in out.h_in.iter() {
        println!("    {:30} = {:?}", k, v);
    }
    for (a, e) in out.events.iter() {
        let s = match e {
            Ev::Offer(j) => format!("offer {}", out.id(*j)),
            Ev::Start(j) => format!("start {}", out.id(*j)),
            Ev::Ok(j, r) => format!("ok {} -> {}", out.id(*j), r),
            Ev::Fail(j, w) => format!("fail {} ({:?})", out.id(*j), w),
            Ev::ContractErr(j) => format!("contract error {}", out.id(*j)),
            Ev::CleanupOffer(j) => format!("cleanup offered {}", out.id(*j)),
            Ev::Ack(j) => format!("cleanup acked {}", out.id(*j)),
            Ev::Abort { failed_first, still_running } => format!("ABORT failed_first={:?} still_running={:?}", failed_first, still_running),
            Ev::Misuse { call, job, res } => format!("misuse call {} on {:?} -> {}", call, job.map(|j| out.id(j).to_string()), res),
        };
        println!("  [{}] {}", a, s);
    }
    for (j, d) in out.disp.iter().enumerate() {
        println!("  disposition {} = {:?} (state code {})", out.id(j), d, out.final_states[j].code);
    }
    if let Some(e) = &out.engine_error {
        println!("  ENGINE ERROR: {}", e);
    }
    if let Some(h) = &out.h_out {
        println!("  history out:");
        for (k, v) in h.iter() {
            println!("    {:30} = {:?}", k, v);
        }
    }
}

pub fn trace(sc: &Scenario) {
    println!("cfg: {:?}", sc.cfg);
    for (i, d) in sc.defs.iter().enumerate() {
        println!("def {}: {:?} {:?} constant={:?} ignores={:?}", i, d.kind, d.universe, d.constant, d.ignores);
    }
    let mut world = World::default();
    for (ri, r) in sc.rounds.iter().enumerate() {
        println!("==== round {} edits {:?}", ri, r.edits);
        for e in r.edits.iter() {
            world.apply_edit(&sc.defs, e);
        }
        println!("  plan: {:?}", r.plan);
        println!("  history in:");
        for (k, v) in world.history.iter() {
            println!("    {:30} = {:?}", k, v);
        }
        println!("  disk in: {:?}", world.disk.keys().collect::<Vec<_>>());
        let out = evaluate(&sc.cfg, &sc.defs, &mut world, &r.plan, ri as u64 + 1);
        for j in out.gv.jobs.iter() {
            println!(
                "  job {} {:?} ups={:?}",
                j.id,
                j.kind,
                j.ups.iter().map(|(u, c)| format!("{}[{}]", out.gv.jobs[*u].id, c.join(","))).collect::<Vec<_>>()
            );
        }
        for (a, e) in out.events.iter() {
            let s = match e {
                Ev::Offer(j) => format!("offer {}", out.id(*j)),
                Ev::Start(j) => format!("start {}", out.id(*j)),
                Ev::Ok(j, r) => format!("ok {} -> {}", out.id(*j), r),
                Ev::Fail(j, w) => format!("fail {} ({:?})", out.id(*j), w),
                Ev::ContractErr(j) => format!("contract error {}", out.id(*j)),
                Ev::CleanupOffer(j) => format!("cleanup offered {}", out.id(*j)),
                Ev::Ack(j) => format!("cleanup acked {}", out.id(*j)),
                Ev::Abort { failed_first, still_running } => format!("ABORT failed_first={:?} still_running={:?}", failed_first, still_running),
                Ev::Misuse { call, job, res } => format!("misuse call {} on {:?} -> {}", call, job.map(|j| out.id(j).to_string()), res),
            };
            println!("  [{}] {}", a, s);
        }
        for (j, d) in out.disp.iter().enumerate() {
            println!("  disposition {} = {:?} (state code {})", out.id(j), d, out.final_states[j].code);
        }
        if let Some(e) = &out.engine_error {
            println!("  ENGINE ERROR: {}", e);
        }
        let mut probes = Probes::new();
        let ctx = crate::oracle::OracleCtx { cfg: &sc.cfg, defs: &sc.defs, nondeterministic_outputs: false, tainted: None, truth: None };
        let mut vio = out.violations.clone();
        vio.extend(crate::oracle::check_eval(&ctx, &out, &r.plan, &mut probes));
        for v in vio {
            println!("  VIOLATION {} {} :: {}", v.prop, v.clause, v.msg);
        }
        if out.engine_error.is_some() {
            break;
        }
    }
}
