#!/bin/bash
# Determinism self-test: the same seeds must give byte-identical event-log digests in separate
# processes, with 1 and with 16 worker threads (DESIGN §6). Exit 0 = deterministic.
set -u
cd "$(dirname "$0")/sim" || exit 2
N=${1:-20000}
bin=./target/release/ppg2sim
tmp=$(mktemp -d /tmp/verif-selftest.XXXXXX)
trap 'rm -rf "$tmp"' EXIT
rc=0
for prop in C01 C06 C09 C15 C16 C20; do
    $bin digest $prop 4294967296 $N 16 > $tmp/a.$prop &
    $bin digest $prop 4294967296 $N 1  > $tmp/b.$prop &
    $bin digest $prop 4294967296 $N 7  > $tmp/c.$prop &
    wait
    if cmp -s $tmp/a.$prop $tmp/b.$prop && cmp -s $tmp/a.$prop $tmp/c.$prop; then
        echo "$prop: $N seeds x 3 processes (16/1/7 threads): identical digests"
    else
        echo "$prop: DIGESTS DIFFER"; diff $tmp/a.$prop $tmp/b.$prop | head -5; rc=1
    fi
done
# the whole search including the coverage-feedback generations, as one digest
M=$((N*2))
for prop in C02 C07 C15; do
    $bin searchdigest $prop $M 16 > $tmp/sa.$prop &
    $bin searchdigest $prop $M 1  > $tmp/sb.$prop &
    $bin searchdigest $prop $M 7  > $tmp/sc.$prop &
    wait
    if cmp -s $tmp/sa.$prop $tmp/sb.$prop && cmp -s $tmp/sa.$prop $tmp/sc.$prop; then
        echo "$prop: search of $M scenarios in 5 generations x 3 processes (16/1/7 threads): identical ($(cut -c1-16 $tmp/sa.$prop))"
    else
        echo "$prop: SEARCH DIGESTS DIFFER"; cat $tmp/sa.$prop $tmp/sb.$prop | cut -c1-200; rc=1
    fi
done
exit $rc
